(** * C15: merge flattens exactly one level; in is substring / deep-membership test.
    Statements only; proofs are in Proofs/OpsBasic.v. *)
From Coq Require Import List ZArith.
From JL Require Import Base.Json Base.F64 Base.Monad Model.JsOp Model.Ops Spec.Specs Spec.OpSpecs Proofs.OpsBasic.
Import ListNotations.

Theorem C15_merge :
  forall vs, op_merge vs = Ok (Arr (flat_map (fun v => match v with Arr l => l | _ => [v] end) vs)).
Proof. exact op_merge_spec. Qed.
Print Assumptions C15_merge.

(** the result length is the sum of the array lengths plus the number of non-array operands *)
Theorem C15_merge_length :
  forall vs, length (merge_spec vs) =
             fold_right (fun v n => match v with Arr l => length l + n | _ => S n end) 0 vs.
Proof. exact merge_length. Qed.
Print Assumptions C15_merge_length.

(** in: substring containment for a string haystack (the needle must be a string), deep
    membership for an array (numbers by numeric value whatever their spelling, objects as maps),
    false for null, an error otherwise *)
Theorem C15_in : forall a b, op_in [a; b] = in_spec a b.
Proof. exact op_in_spec. Qed.
Print Assumptions C15_in.

Theorem C15_membership_equality : forall a b, deep_eq a b = json_eq a b.
Proof. exact deep_eq_json_eq. Qed.
Print Assumptions C15_membership_equality.

Example C15_nonvacuous :
  json_eq (Num (PosInt 1)) (Num (Float (f64_of_Z 1))) = true /\
  json_eq (Num (PosInt 0)) (Num (Float (SpecFloat.S754_zero true))) = true /\
  json_eq (Arr [Num (PosInt 1)]) (Arr [Num (PosInt 1); Num (PosInt 2)]) = false.
Proof. vm_compute. repeat split. Qed.
