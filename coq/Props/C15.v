(** Theorems for C15: filled in below as the proofs land. *)
From JL Require Import Base.Json.
