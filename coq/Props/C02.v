(** * C02: only single-key objects keyed by an operator name are rules; the rest is literal.
    Statements only; proofs are in Proofs/Literal.v, Proofs/Parse.v and Proofs/Tables.v. *)
From Coq Require Import List String NArith Bool.
From JL Require Import Base.Json Base.Lits Base.Monad Model.Ops Model.Table Gen.OpTable Model.Eval.
From JL Require Import Spec.Specs Proofs.Tables Proofs.Parse Proofs.Literal.
Import ListNotations.
Local Open Scope string_scope.
Local Open Scope bool_scope.

(** Every value that is not a single-key object keyed by one of the 35 names - primitives,
    arrays, {}, multi-key objects, unknown or near-miss keys - evaluates to itself, with no
    log line, whatever the data is.  ([is_operation] compares keys by exact code-point equality.) *)
Theorem C02_literal :
  forall r, is_operation r = false -> forall n d, apply_fuel (S n) r d = ([], Ok r).
Proof. exact literal_evaluates_to_itself. Qed.
Print Assumptions C02_literal.

(** The keys of the three tables generated from src/op/mod.rs are pairwise distinct and are
    exactly the 35 specified names; each key equals its entry's symbol. *)
Theorem C02_names :
  nodupb all_keys = true /\
  (forallb (fun k => match name_of k with Some _ => true | None => false end) all_keys
   && forallb (fun kn => existsb (str_eqb (fst kn)) all_keys) op_names
   && Nat.eqb (List.length all_keys) 35 && Nat.eqb (List.length op_names) 35 = true) /\
  (forallb (fun e => str_eqb (e_key e) (e_symbol e)) eager_table
   && forallb (fun e => str_eqb (d_key e) (d_symbol e)) data_table
   && forallb (fun e => str_eqb (l_key e) (l_symbol e)) lazy_meta = true).
Proof. exact (conj keys_nodup (conj keys_are_spec_names key_is_symbol)). Qed.
Print Assumptions C02_names.

(** Every specified name is dispatched: {k: a} never parses as a literal; it is the operation
    keyed k (or a parse error such as a wrong operand count). *)
Theorem C02_dispatch :
  forall k o a, name_of k = Some o ->
    match parse (Obj [(k, a)]) with
    | Ok p => dispatched_key p = Some k
    | _ => True
    end.
Proof. exact operation_is_dispatched. Qed.
Print Assumptions C02_dispatch.

(** Non-vacuity: near misses of "var" are literals; "var" itself is not. *)
Example C02_nonvacuous :
  is_operation (Obj [(lit "var ", Str (lit "a"))]) = false /\
  is_operation (Obj [(lit "VAR", Str (lit "a"))]) = false /\
  is_operation (Obj [(lit "va", Str (lit "a"))]) = false /\
  is_operation (Obj [(lit "var", Str (lit "a")); (lit "zz", Null)]) = false /\
  is_operation (Obj [(lit "var", Str (lit "a"))]) = true.
Proof. vm_compute. repeat split. Qed.
