(** * C06: one JsonLogic truthiness table governs every boolean decision.
    Statements only; proofs are in Proofs/Truthy.v (and the C05/C13/C14 theorems, which are
    stated with the same [truthy_spec]). *)
From Coq Require Import List Bool NArith.
From JL Require Import Base.Json Base.F64 Base.Monad Model.Ops Spec.Specs Spec.OpSpecs.
From JL Require Import Proofs.Truthy Proofs.Logic Proofs.Arrays Proofs.ModelLaws.
Import ListNotations.

(** the model's single truthiness function is the table of the property *)
Theorem C06_truthy_is_table : forall v, truthy v = truthy_spec v.
Proof. exact truthy_eq. Qed.
Print Assumptions C06_truthy_is_table.

(** the table, spelled out: exactly false, null, zero (any spelling, including -0), "" and [] are falsy *)
Theorem C06_falsy_values :
  forall v, truthy_spec v = false <->
    (v = Bool false \/ v = Null \/ v = Str [] \/ v = Arr [] \/
     exists n, v = Num n /\ f64_eqb (as_f64 n) f64_zero = true).
Proof. exact truthy_table. Qed.
Print Assumptions C06_falsy_values.

(** `!` is the exact negation of `!!` *)
Theorem C06_not_negates :
  forall items, op_not items =
                omap (fun v => match v with Bool b => Bool (negb b) | x => x end) (op_double_not items).
Proof. exact op_not_negates. Qed.
Print Assumptions C06_not_negates.

(** every deciding operator is (proved equal to) a specification written with [truthy_spec]:
    if / ?: / and / or (C05), filter (C13), all / some / none (C14) *)
Theorem C06_same_table_everywhere :
  forall (parsed : Type) (P : value -> outcome parsed) (E : parsed -> value -> M value) d,
    (forall args, if_ parsed P E d args = if_spec (pe parsed P E) d args) /\
    (forall args, or_ parsed P E d args = or_spec (pe parsed P E) d args) /\
    (forall args, and_ parsed P E d args = and_spec (pe parsed P E) d args) /\
    (forall c e, filter_ parsed P E d [c; e] = filter_spec (pe parsed P E) (chk parsed P) d c e).
Proof.
  intros parsed P E d. repeat split; intros.
  - apply if_is_spec. - apply or_is_spec. - apply and_is_spec. - apply filter_is_spec.
Qed.
Print Assumptions C06_same_table_everywhere.

Example C06_corner_values :
  map truthy_spec [Str [48%N]; Arr [Num (PosInt 0%N)]; Arr [Arr []]; Obj []; Num (Float (SpecFloat.S754_zero true))]
  = [true; true; true; true; false].
Proof. reflexivity. Qed.

(** every object, every non-empty array and every non-empty string is truthy for the code
    (Proofs/ModelLaws.v), whatever they contain *)
Theorem C06_code_containers :
  forall m x l c s, truthy (Obj m) = true /\ truthy (Arr (x :: l)) = true /\ truthy (Str (c :: s)) = true.
Proof. exact (fun m x l c s => conj (code_truthy_obj m) (conj (code_truthy_arr_nonempty x l) (code_truthy_str_nonempty c s))). Qed.
Print Assumptions C06_code_containers.
