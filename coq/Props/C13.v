(** * C13: map, filter and reduce have standard higher-order semantics and scoping.
    Statements only; proofs are in Proofs/Arrays.v and Proofs/ArrayFacts.v. *)
From Coq Require Import List Bool.
From JL Require Import Base.Json Base.Lits Base.Monad Model.Ops Spec.Specs Spec.OpSpecs.
From JL Require Import Proofs.MonadLaws Proofs.Arrays Proofs.ArrayFacts.
Import ListNotations.
Local Open Scope m_scope.

(** For every parser P and evaluator E: the model's map / filter / reduce are the specifications
    (collection evaluated once against the outer data; null is the empty collection, any other
    non-array an error; the expression evaluated per element with the element - for reduce the
    object {accumulator, current} - as the entire data). *)
Theorem C13_map_is_spec :
  forall (parsed : Type) (P : value -> outcome parsed) (E : parsed -> value -> M value) d c e,
    map_ parsed P E d [c; e] = map_spec (pe parsed P E) (chk parsed P) d c e.
Proof. exact map_is_spec. Qed.
Print Assumptions C13_map_is_spec.

Theorem C13_filter_is_spec :
  forall (parsed : Type) (P : value -> outcome parsed) (E : parsed -> value -> M value) d c e,
    filter_ parsed P E d [c; e] = filter_spec (pe parsed P E) (chk parsed P) d c e.
Proof. exact filter_is_spec. Qed.
Print Assumptions C13_filter_is_spec.

Theorem C13_reduce_is_spec :
  forall (parsed : Type) (P : value -> outcome parsed) (E : parsed -> value -> M value) d c e i,
    reduce_ parsed P E d [c; e; i] = reduce_spec (pe parsed P E) (chk parsed P) d c e i.
Proof. exact reduce_is_spec. Qed.
Print Assumptions C13_reduce_is_spec.

(** map preserves the length; filter returns a subsequence (elements unchanged, in order) and,
    for a test without effects, exactly List.filter. *)
Theorem C13_map_length :
  forall (f : value -> M value) xs t ys, mapM f xs = (t, Ok ys) -> length ys = length xs.
Proof. exact (@mapM_length value value). Qed.
Print Assumptions C13_map_length.

Theorem C13_filter_subsequence :
  forall (p : value -> M bool) xs t ys, filterM p xs = (t, Ok ys) -> subseq ys xs.
Proof. exact filterM_subseq. Qed.
Print Assumptions C13_filter_subsequence.

Theorem C13_filter_is_List_filter :
  forall (q : value -> bool) xs, filterM (fun x => ret (q x)) xs = ret (filter q xs).
Proof. exact filterM_pure. Qed.
Print Assumptions C13_filter_is_List_filter.

(** Scoping: the outer data reaches these operators only through the collection operand (and
    reduce's initial value); inside, the element (or {accumulator, current}) is the entire data. *)
Theorem C13_scoping :
  forall ev chk d d' c e i,
    ev c d = ev c d' ->
    map_spec ev chk d c e = map_spec ev chk d' c e /\
    filter_spec ev chk d c e = filter_spec ev chk d' c e /\
    (ev i d = ev i d' -> reduce_spec ev chk d c e i = reduce_spec ev chk d' c e i).
Proof.
  intros ev chk d d' c e i H. split; [apply map_scoping, H|]. split; [apply filter_scoping, H|].
  intros H2. apply reduce_scoping; assumption.
Qed.
Print Assumptions C13_scoping.

Theorem C13_reduce_context :
  forall cur acc, reduce_ctx cur acc = Obj [(s_accumulator, acc); (s_current, cur)].
Proof. reflexivity. Qed.
Print Assumptions C13_reduce_context.
