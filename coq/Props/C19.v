(** * C19: the Python module adds only JSON (de)serialisation around the library.
    Statements only; proofs are in Proofs/BoundaryFacts.v.  (Model part: the logic of
    __init__.py::apply / apply_serialized and of src/lib.rs::python_iface over what the text
    parser made of the texts.  CPython, its json module and the cpython crate are exercised by
    the correspondence run: the extension built from the working tree is imported and called.) *)
From Coq Require Import List NArith.
From JL Require Import Base.Json Base.Str Base.JsonText Base.Monad Model.Eval Model.Boundary Proofs.BoundaryFacts.
Import ListNotations.

(** a result text is returned exactly when both texts parse and the library succeeds; it is the
    serialised library result (which the wrapper then hands to the deserializer) *)
Theorem C19_return :
  forall value data text,
    py_native value data = PyReturn text <->
    exists r d logs v, value = Some r /\ data = Some d /\ apply r d = (logs, Ok v) /\ text = json_text v.
Proof. exact py_return. Qed.
Print Assumptions C19_return.

(** every library error and every malformed text is a ValueError *)
Theorem C19_value_error :
  forall value data,
    py_native value data = PyValueError <->
    value = None \/ data = None \/ exists r d e, value = Some r /\ data = Some d /\ snd (apply r d) = Err e.
Proof. exact py_value_error. Qed.
Print Assumptions C19_value_error.

(** an omitted data argument means null *)
Theorem C19_omitted_data : forall value, py_apply value None = py_native value (Some Null).
Proof. exact py_omitted_data_is_null. Qed.
Print Assumptions C19_omitted_data.
