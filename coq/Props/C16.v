(** * C16: cat concatenates JS string forms; substr slices by Unicode character.
    Statements only; proofs are in Proofs/OpsBasic.v. *)
From Coq Require Import List ZArith.
From JL Require Import Base.Json Base.Monad Model.JsOp Model.Ops Spec.Specs Spec.OpSpecs Proofs.OpsBasic.
Import ListNotations.

(** cat is the concatenation of the operands' string forms (strings are code-point lists, so
    every index below counts Unicode characters, never bytes) *)
Theorem C16_cat : forall vs, op_cat vs = Ok (Str (concat (map to_string_spec vs))).
Proof. exact op_cat_spec. Qed.
Print Assumptions C16_cat.

Theorem C16_to_string : forall v, to_string v = to_string_spec v.
Proof. exact to_string_eq. Qed.
Print Assumptions C16_to_string.

Theorem C16_cat_in_pieces :
  forall xs ys, cat_spec [Str (cat_spec xs); Str (cat_spec ys)] = cat_spec (xs ++ ys).
Proof. exact cat_pieces. Qed.
Print Assumptions C16_cat_in_pieces.

(** substr on two or three operands is the specification (start: skip / count from the end;
    length: take that many / stop that many before the end; clamped to the string) *)
Theorem C16_substr : forall vs, (length vs = 2 \/ length vs = 3) -> op_substr vs = substr_op_spec vs.
Proof. exact op_substr_spec. Qed.
Print Assumptions C16_substr.

Theorem C16_substr_split :
  forall s i, (0 <= i)%Z -> substr_spec s 0 (Some i) ++ substr_spec s i None = s.
Proof. exact substr_split. Qed.
Print Assumptions C16_substr_split.

Example C16_nonvacuous :
  substr_spec [104; 233; 108; 108; 111]%N (-2) None = [108; 111]%N /\
  substr_spec [104; 233; 108; 108; 111]%N 0 (Some (-1)%Z) = [104; 233; 108; 108]%N /\
  substr_spec [104; 233]%N (-9223372036854775808) (Some 9223372036854775807%Z) = [104; 233]%N.
Proof. vm_compute. repeat split. Qed.
