(** * C18: the jsonlogic command is a faithful, chainable wrapper of the library.
    Statements only; proofs are in Proofs/BoundaryFacts.v.  (Model part: the logic of
    src/bin.rs::main over what the text parser made of the two texts.  clap, process exit codes,
    pipes and serde_json's text parser are exercised by the correspondence run: the real binary
    is executed on generated texts in the three forms and compared with this model.) *)
From Coq Require Import List NArith.
From JL Require Import Base.Json Base.Str Base.JsonText Base.Monad Model.Eval Model.Boundary Proofs.BoundaryFacts.
Import ListNotations.

(** exit 0 exactly when both texts parse and evaluation succeeds; stdout is then the log lines
    followed by exactly one line holding the serialised result *)
Theorem C18_success :
  forall logic data out,
    cli logic data = (out, 0%N) <->
    exists r d logs v, logic = Some r /\ data = Some d /\ apply r d = (logs, Ok v) /\
                       out = map json_text logs ++ [json_text v].
Proof. exact cli_success. Qed.
Print Assumptions C18_success.

(** on failure: a non-zero status and no result line (nothing at all for unparsable texts) *)
Theorem C18_failure :
  forall logic data out code,
    cli logic data = (out, code) -> code <> 0%N ->
    (logic = None /\ out = []) \/ (data = None /\ out = []) \/
    (exists r d logs, logic = Some r /\ data = Some d /\ fst (apply r d) = logs /\ out = map json_text logs /\
                      forall v, snd (apply r d) <> Ok v).
Proof. exact cli_failure. Qed.
Print Assumptions C18_failure.

Theorem C18_three_forms :
  forall logic data,
    cli_form AsArgument logic data = cli_form StdinNoArgument logic data /\
    cli_form StdinNoArgument logic data = cli_form StdinDash logic data.
Proof. exact cli_three_forms. Qed.
Print Assumptions C18_three_forms.

(** chaining, for any text parser that reads back what the serialiser writes *)
Theorem C18_chain :
  forall (parse_json : str -> parsed_text), (forall v, parse_json (json_text v) = Some v) ->
  forall r1 d r2 v1, apply r1 d = ([], Ok v1) ->
  forall line, cli (Some r1) (Some d) = ([line], 0%N) ->
    cli (Some r2) (parse_json line) = cli (Some r2) (Some v1).
Proof. exact cli_chain. Qed.
Print Assumptions C18_chain.
