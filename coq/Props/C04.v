(** * C04: only rule text is executed: data and computed values are never re-interpreted.
    Statements only; proofs are in Proofs/Refine.v and Proofs/OpsCorrect.v.

    [ref_eval] (Spec/RefEval.v) recurses on the rule's syntax only: by construction it can never
    interpret a value read from the data, a default, or a computed value as logic.  The master
    theorem says the model of the implementation (two-phase parser + fuel-driven evaluator,
    lazy operators handing rule text back to the parser) computes exactly what it computes.

    Both scanner lemmas it rests on are proved for every string: Proofs/Scan.v
    (str_to_number_spec: the Number()-style scanner is the StringNumericLiteral grammar) and
    Proofs/Scan2.v (parse_float_string_spec: the parseFloat scanner returns the value of the
    LONGEST prefix that is a StrDecimalLiteral), so the theorems carry no hypothesis. *)
From Coq Require Import List.
From JL Require Import Base.Json Base.Dec2Flt Base.Monad Model.Eval Spec.Specs Spec.RefEval.
From JL Require Import Base.Lits Proofs.MonadLaws Proofs.OpsCorrect Proofs.Totality Proofs.Scan Proofs.Scan2 Proofs.Subst.
From Coq Require Import String NArith ZArith.
Local Open Scope string_scope.
Import ListNotations.

Theorem C04_single_pass :
  forall n r d, vdepth r < n -> meq (apply_fuel n r d) (ref_eval r d).
Proof. exact (model_refines_reference str_to_number_spec parse_float_string_spec). Qed.
Print Assumptions C04_single_pass.

(** in particular for the budget [apply] uses *)
Theorem C04_apply_is_reference :
  forall r d, meq (apply r d) (ref_eval r d).
Proof.
  intros r d. unfold apply. apply (model_refines_reference str_to_number_spec parse_float_string_spec).
  unfold default_fuel. auto with arith.
Qed.
Print Assumptions C04_apply_is_reference.

(** the substitution law: when the operands of an eager operator that does not consult the
    data evaluate to [vs] (writing the lines [logs]), the rule with every operand replaced by a
    reference {"var":[i]} into the precomputed values gives the same outcome and the same lines.
    First on the reference semantics (an equation), then for the model of the implementation. *)
Theorem C04_substitution :
  forall o k args d logs vs,
    name_of k = Some o -> data_free o = true -> documented o (List.length args) = true ->
    mapM (fun a => ref_eval a d) args = (logs, Ok vs) ->
    (Z.of_nat (List.length vs) < 2 ^ 63)%Z ->
    ref_eval (Obj [(k, Arr args)]) d = tapp logs (ref_eval (Obj [(k, Arr (refs (List.length args)))]) (Arr vs)).
Proof. exact substitution_law. Qed.
Print Assumptions C04_substitution.

Theorem C04_substitution_model :
  forall o k args d logs vs,
    name_of k = Some o -> data_free o = true -> documented o (List.length args) = true ->
    mapM (fun a => ref_eval a d) args = (logs, Ok vs) ->
    (Z.of_nat (List.length vs) < 2 ^ 63)%Z ->
    meq (apply (Obj [(k, Arr args)]) d)
        (tapp logs (apply (Obj [(k, Arr (refs (List.length args)))]) (Arr vs))).
Proof. exact (substitution_law_model C04_apply_is_reference). Qed.
Print Assumptions C04_substitution_model.

(** its premises are satisfiable, with a line logged on the way *)
Example C04_substitution_nonvacuous :
  let args := [Obj [(lit "log", Arr [Str (lit "x")])]; Obj [(lit "+", Arr [Num (PosInt 1%N); Num (PosInt 2%N)])]] in
  mapM (fun a => ref_eval a Null) args = ([Str (lit "x")], Ok [Str (lit "x"); Num (PosInt 3%N)]) /\
  name_of (lit "cat") = Some OCat /\ data_free OCat = true /\ documented OCat 2 = true /\
  snd (apply (Obj [(lit "cat", Arr args)]) Null) = Ok (Str (lit "x3")).
Proof. vm_compute. repeat split. Qed.

(** data is inert even when it looks like an operation: the witnesses of the repaired defects *)
Example C04_data_is_inert :
  let secret := Obj [(lit "secret", Num (PosInt 42%N)); (lit "x", Obj [(lit "var", Str (lit "secret"))])] in
  snd (apply (Obj [(lit "var", Arr [Str (lit "nope"); Obj [(lit "var", Str (lit "x"))]])]) secret)
  = Ok (Obj [(lit "var", Str (lit "secret"))]).
Proof. vm_compute. reflexivity. Qed.
