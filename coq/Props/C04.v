(** * C04: only rule text is executed: data and computed values are never re-interpreted.
    Statements only; proofs are in Proofs/Refine.v and Proofs/OpsCorrect.v.

    [ref_eval] (Spec/RefEval.v) recurses on the rule's syntax only: by construction it can never
    interpret a value read from the data, a default, or a computed value as logic.  The master
    theorem says the model of the implementation (two-phase parser + fuel-driven evaluator,
    lazy operators handing rule text back to the parser) computes exactly what it computes.

    Both scanner lemmas it rests on are proved for every string: Proofs/Scan.v
    (str_to_number_spec: the Number()-style scanner is the StringNumericLiteral grammar) and
    Proofs/Scan2.v (parse_float_string_spec: the parseFloat scanner returns the value of the
    LONGEST prefix that is a StrDecimalLiteral), so the theorems carry no hypothesis. *)
From Coq Require Import List.
From JL Require Import Base.Json Base.Dec2Flt Base.Monad Model.Eval Spec.Specs Spec.RefEval.
From JL Require Import Proofs.MonadLaws Proofs.OpsCorrect Proofs.Totality Proofs.Scan Proofs.Scan2.
From Coq Require Import String NArith ZArith.
Local Open Scope string_scope.
Import ListNotations.

Theorem C04_single_pass :
  forall n r d, vdepth r < n -> meq (apply_fuel n r d) (ref_eval r d).
Proof. exact (model_refines_reference str_to_number_spec parse_float_string_spec). Qed.
Print Assumptions C04_single_pass.

(** in particular for the budget [apply] uses *)
Theorem C04_apply_is_reference :
  forall r d, meq (apply r d) (ref_eval r d).
Proof.
  intros r d. unfold apply. apply (model_refines_reference str_to_number_spec parse_float_string_spec).
  unfold default_fuel. auto with arith.
Qed.
Print Assumptions C04_apply_is_reference.

(** data is inert even when it looks like an operation: the witnesses of the repaired defects *)
Example C04_data_is_inert :
  let secret := Obj [(lit "secret", Num (PosInt 42%N)); (lit "x", Obj [(lit "var", Str (lit "secret"))])] in
  snd (apply (Obj [(lit "var", Arr [Str (lit "nope"); Obj [(lit "var", Str (lit "x"))]])]) secret)
  = Ok (Obj [(lit "var", Str (lit "secret"))]).
Proof. vm_compute. reflexivity. Qed.
