(** * C10: arithmetic yields the exact IEEE-754 double or an error, never a wrong number.
    Statements only; proofs are in Proofs/Arith.v.  The double is Coq's own executable IEEE-754
    binary64 (Floats.SpecFloat at precision 53, emax 1024, round to nearest even).
    The scanner lemmas the operator theorems rest on are proved in Proofs/Scan.v and Proofs/Scan2.v. *)
From Coq Require Import List Bool ZArith.
From JL Require Import Base.Json Base.Lits Base.F64 Base.Str Base.Dec2Flt Base.Monad Model.JsOp Model.Ops Spec.Specs Spec.OpSpecs.
From JL Require Import Proofs.Arith Proofs.OpsCorrect Proofs.Scan Proofs.Scan2 Proofs.CharTables Gen.CharTable.
From Coq Require Import String NArith ZArith.
Local Open Scope string_scope.
Import ListNotations.

(** the narrowing of a double to a JSON number, for every double: the canonical spelling
    (integer exactly when integral and within 64 bits, never clamped), an error iff not finite *)
Theorem C10_narrowing : forall f, to_number_value f = canonical_num f.
Proof. exact to_number_value_spec. Qed.
Print Assumptions C10_narrowing.

(** the Number()-style operators need no hypothesis *)
Theorem C10_number_style_operators :
  (forall vs, op_max vs = arith_spec OMax vs) /\ (forall vs, op_min vs = arith_spec OMin vs) /\
  (forall a b, op_div [a; b] = arith_spec ODiv [a; b]) /\ (forall a b, op_mod [a; b] = arith_spec OMod [a; b]) /\
  (forall vs, (List.length vs = 1 \/ List.length vs = 2)%nat -> op_minus vs = arith_spec OSub vs).
Proof.
  pose proof str_to_number_spec as H1. repeat split; intros.
  - apply op_max_spec, H1. - apply op_min_spec, H1.
  - apply op_div_spec, H1. - apply op_mod_spec, H1. - apply op_minus_spec; assumption.
Qed.
Print Assumptions C10_number_style_operators.

Theorem C10_operators :
  (forall vs, op_add vs = arith_spec OAdd vs) /\ (forall vs, op_mul vs = arith_spec OMul vs) /\
  (forall vs, op_max vs = arith_spec OMax vs) /\ (forall vs, op_min vs = arith_spec OMin vs) /\
  (forall a b, op_div [a; b] = arith_spec ODiv [a; b]) /\ (forall a b, op_mod [a; b] = arith_spec OMod [a; b]) /\
  (forall vs, (List.length vs = 1 \/ List.length vs = 2)%nat -> op_minus vs = arith_spec OSub vs).
Proof.
  pose proof parse_float_string_spec as H2. pose proof str_to_number_spec as H1. repeat split; intros.
  - apply op_add_spec, H2. - apply op_mul_spec, H2. - apply op_max_spec, H1. - apply op_min_spec, H1.
  - apply op_div_spec, H1. - apply op_mod_spec, H1. - apply op_minus_spec; assumption.
Qed.
Print Assumptions C10_operators.

(** the parseFloat scanner itself, for every string *)
Theorem C10_parse_float_longest_prefix : forall s, parse_float_string s = es_parse_float_str s.
Proof. exact parse_float_string_spec. Qed.
Print Assumptions C10_parse_float_longest_prefix.

(** a result is a number exactly when every operand is numeric and the double is finite *)
Theorem C10_error_iff :
  forall o vs,
    arith_spec o vs = match arith_value o vs with
                      | Some f => if is_finite f then canonical_num f else Err UnexpectedError
                      | None => Err InvalidArgument
                      end.
Proof.
  intros o vs. unfold arith_spec. destruct (arith_value o vs) as [f|]; [|reflexivity].
  unfold canonical_num. destruct (is_finite f); reflexivity.
Qed.
Print Assumptions C10_error_iff.

(** the literal tables of src/js_op.rs, regenerated from the source on every run, are the model's:
    the white space trimmed before a string is read as a number, and the radix prefixes *)
Theorem C10_source_tables :
  (forall c, in_ranges code_js_ws_ranges c = is_js_ws c) /\ (forall s, code_radix s = model_radix s) /\
  (forall s0, str_to_number s0 =
     let s := trim_both is_js_ws s0 in
     match s with
     | nil => Some f64_zero
     | _ => match model_radix s with
            | Some rdx => radix_digits_to_number (skipn 2 s) rdx
            | None => match parse_decimal_prefix s with
                      | Some (v, len) => if Nat.eqb len (List.length s) then Some v else None
                      | None => None
                      end
            end
     end).
Proof. exact (conj code_js_ws_is_model (conj code_radix_is_model str_to_number_uses_model_radix)). Qed.
Print Assumptions C10_source_tables.

Example C10_nonvacuous :
  arith_spec OAdd [Num (Float (dec_to_f64 false 1 19)); Num (PosInt 0%N)] = Ok (Num (PosInt 10000000000000000000%N)) /\
  arith_spec OMul [Num (Float (dec_to_f64 false 1 10)); Num (Float (dec_to_f64 false 1 10))]
    = Ok (Num (Float (dec_to_f64 false 1 20))) /\
  arith_spec OAdd [Str (lit "12px"); Arr [Num (PosInt 3%N)]] = Ok (Num (PosInt 15%N)) /\
  arith_spec OSub [Str (lit "")] = Ok (Num (PosInt 0%N)) /\
  arith_spec ODiv [Num (PosInt 1%N); Num (PosInt 0%N)] = Err UnexpectedError /\
  arith_spec OMax [Str (lit "nan"); Num (PosInt 1%N)] = Err InvalidArgument.
Proof. vm_compute. repeat split. Qed.
