(** * C01: evaluation is total: a value or an error, never a panic, abort or hang.
    Statements only; proofs are in Proofs/Totality.v.  (Model part: the logic of termination and
    of panic-freedom.  The real stack size, allocation and process behaviour are exercised by the
    correspondence run, not by these theorems.)

    [Panic] is what the model returns where the Rust code would index past the end of a vector or
    unwrap a None; [OutOfFuel] where the recursion budget is exhausted.  The theorems say neither
    is reachable with a budget of (nesting depth of the rule + 1) - a bound that depends on the
    rule only, never on the data: recursion depth of evaluation is bounded by the rule's depth. *)
From Coq Require Import List.
From JL Require Import Base.Json Base.F64 Base.Dec2Flt Base.Monad Model.JsOp Model.Eval Spec.Specs.
From JL Require Import Proofs.MonadLaws Proofs.Totality Proofs.Scan Proofs.Scan2.
From Coq Require Import String NArith ZArith.
Local Open Scope string_scope.
Import ListNotations.

Theorem C01_no_panic_no_hang :
  forall n r d, vdepth r < n ->
    (exists v, snd (apply_fuel n r d) = Ok v) \/ (exists e, snd (apply_fuel n r d) = Err e).
Proof. exact (no_panic_no_hang str_to_number_spec parse_float_string_spec). Qed.
Print Assumptions C01_no_panic_no_hang.

Theorem C01_apply_total :
  forall r d, (exists v, snd (apply r d) = Ok v) \/ (exists e, snd (apply r d) = Err e).
Proof. exact (apply_total str_to_number_spec parse_float_string_spec). Qed.
Print Assumptions C01_apply_total.

(** the public helpers that return a Result return Ok or Err; the others are total functions *)
Theorem C01_helpers_total :
  (forall conv step init items,
      (exists f, fold_num conv step init items = Ok f) \/ (exists e, fold_num conv step init items = Err e)) /\
  (forall op a b, (exists f, num_binop op a b = Ok f) \/ (exists e, num_binop op a b = Err e)) /\
  (forall f, (exists v, to_number_value f = Ok v) \/ (exists e, to_number_value f = Err e)).
Proof. exact (conj fold_num_total (conj num_binop_total to_number_value_total)). Qed.
Print Assumptions C01_helpers_total.

(** the inputs that used to crash the implementation, on the model *)
Example C01_former_crashes :
  snd (apply (Obj [(lit "var", Num (NegInt (-9223372036854775808)%Z))]) (Arr [Null; Null])) = Ok Null /\
  snd (apply (Obj [(lit "substr", Arr [Str (lit "abc"); Num (NegInt (-9223372036854775808)%Z)])]) Null)
    = Ok (Str (lit "abc")) /\
  abstract_plus (Num (Float (f64_of_Z (2 ^ 1023)))) (Num (Float (f64_of_Z (2 ^ 1023)))) = Null.
Proof. vm_compute. repeat split. Qed.
