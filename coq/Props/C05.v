(** * C05: if / ?: / and / or select and evaluate only the deciding operands.
    Statements only; proofs are in Proofs/Logic.v and Proofs/Tables.v. *)
From Coq Require Import List String NArith.
Local Open Scope string_scope.
From JL Require Import Base.Json Base.Lits Base.Monad Model.Ops Model.Table Gen.OpTable Model.Eval.
From JL Require Import Spec.Specs Spec.OpSpecs Proofs.Logic Proofs.Tables.
Import ListNotations.

(** For every parser P and evaluator E (hence for the real ones), the model's fold-based
    operators are the three-line recursive specifications. *)
Theorem C05_if_is_spec :
  forall (parsed : Type) (P : value -> outcome parsed) (E : parsed -> value -> M value) d args,
    if_ parsed P E d args = if_spec (pe parsed P E) d args.
Proof. exact if_is_spec. Qed.
Print Assumptions C05_if_is_spec.

Theorem C05_or_is_spec :
  forall (parsed : Type) (P : value -> outcome parsed) (E : parsed -> value -> M value) d args,
    or_ parsed P E d args = or_spec (pe parsed P E) d args.
Proof. exact or_is_spec. Qed.
Print Assumptions C05_or_is_spec.

Theorem C05_and_is_spec :
  forall (parsed : Type) (P : value -> outcome parsed) (E : parsed -> value -> M value) d args,
    and_ parsed P E d args = and_spec (pe parsed P E) d args.
Proof. exact and_is_spec. Qed.
Print Assumptions C05_and_is_spec.

(** Non-evaluation, stated without traces: once a condition is truthy, the operands after its
    branch cannot influence anything (value, error, log); an untaken branch cannot either. *)
Theorem C05_if_ignores_rest :
  forall parsed P E d c b rest rest' t v,
    pe parsed P E c d = (t, Ok v) -> truthy_spec v = true ->
    if_ parsed P E d (c :: b :: rest) = if_ parsed P E d (c :: b :: rest').
Proof. exact if_ignores_rest. Qed.
Print Assumptions C05_if_ignores_rest.

Theorem C05_if_skips_untaken_branch :
  forall parsed P E d c b b' rest t v,
    pe parsed P E c d = (t, Ok v) -> truthy_spec v = false ->
    if_ parsed P E d (c :: b :: rest) = if_ parsed P E d (c :: b' :: rest).
Proof. exact if_skips_untaken_branch. Qed.
Print Assumptions C05_if_skips_untaken_branch.

Theorem C05_or_ignores_rest :
  forall parsed P E d a b rest b' rest' t v,
    pe parsed P E a d = (t, Ok v) -> truthy_spec v = true ->
    or_ parsed P E d (a :: b :: rest) = or_ parsed P E d (a :: b' :: rest').
Proof. exact or_ignores_rest. Qed.
Print Assumptions C05_or_ignores_rest.

Theorem C05_and_ignores_rest :
  forall parsed P E d a b rest b' rest' t v,
    pe parsed P E a d = (t, Ok v) -> truthy_spec v = false ->
    and_ parsed P E d (a :: b :: rest) = and_ parsed P E d (a :: b' :: rest').
Proof. exact and_ignores_rest. Qed.
Print Assumptions C05_and_ignores_rest.

(** `?:` is bound to the same function as `if` in the table generated from the source. *)
Theorem C05_ternary_is_if :
  forall parsed P E,
    option_map l_fn (lookup l_key (lazy_table parsed P E) (lit "?:")) =
    option_map l_fn (lookup l_key (lazy_table parsed P E) (lit "if")).
Proof. exact ternary_is_if. Qed.
Print Assumptions C05_ternary_is_if.

(** Non-vacuity: a concrete evaluation in which the second operand is poisoned and never reached. *)
Example C05_nonvacuous :
  snd (apply (Obj [(lit "or", Arr [Bool true; Obj [(lit "==", Arr [Num (PosInt 1%N)])]])]) Null) = Ok (Bool true).
Proof. vm_compute. reflexivity. Qed.
