(** * C07: == and != implement ECMAScript abstract equality on JSON values.
    Statements only; proofs are in Proofs/Compare.v.  The scanner lemma is Proofs/Scan.v:
    str_to_number recognises exactly the StringNumericLiteral grammar (str_to_number_spec). *)
From Coq Require Import List Bool.
From JL Require Import Base.Json Base.F64 Base.Str Base.Dec2Flt Base.Monad Model.JsOp Model.Ops Spec.Specs Proofs.Compare Proofs.Scan Proofs.CharTables Gen.CharTable Proofs.ModelLaws.
From Coq Require Import String NArith ZArith.
Local Open Scope string_scope.
Import ListNotations.

Theorem C07_eq : forall a b, abstract_eq a b = es_eq a b.
Proof. exact (abstract_eq_spec str_to_number_spec). Qed.
Print Assumptions C07_eq.

Theorem C07_ne : forall a b, abstract_ne a b = negb (es_eq a b).
Proof. exact (abstract_ne_spec str_to_number_spec). Qed.
Print Assumptions C07_ne.

(** JavaScript's string-to-number rules: the scanner of js_op.rs is the StringNumericLiteral
    recogniser of the specification, for every string *)
Theorem C07_string_to_number : forall s, str_to_number s = es_str_to_number s.
Proof. exact str_to_number_spec. Qed.
Print Assumptions C07_string_to_number.

(** the specification relation is symmetric (no hypothesis) *)
Theorem C07_symmetric : forall a b, es_eq a b = es_eq b a.
Proof. exact es_eq_sym. Qed.
Print Assumptions C07_symmetric.

(** arrays and objects are never equal to one another; null equals only null *)
Theorem C07_containers_and_null :
  (forall a b, is_container a = true -> is_container b = true -> es_eq a b = false) /\
  (forall b, es_eq Null b = match b with Null => true | _ => false end).
Proof.
  split.
  - intros a b Ha Hb. unfold es_eq. rewrite Ha, Hb. reflexivity.
  - intros b. destruct b; reflexivity.
Qed.
Print Assumptions C07_containers_and_null.

(** the literal tables of src/js_op.rs, regenerated from the source on every run, are the model's:
    the white space trimmed before a string is read as a number, and the radix prefixes *)
Theorem C07_source_tables :
  (forall c, in_ranges code_js_ws_ranges c = is_js_ws c) /\ (forall s, code_radix s = model_radix s) /\
  (forall s0, str_to_number s0 =
     let s := trim_both is_js_ws s0 in
     match s with
     | nil => Some f64_zero
     | _ => match model_radix s with
            | Some rdx => radix_digits_to_number (skipn 2 s) rdx
            | None => match parse_decimal_prefix s with
                      | Some (v, len) => if Nat.eqb len (List.length s) then Some v else None
                      | None => None
                      end
            end
     end).
Proof. exact (conj code_js_ws_is_model (conj code_radix_is_model str_to_number_uses_model_radix)). Qed.
Print Assumptions C07_source_tables.

Example C07_nonvacuous :
  es_eq (Str (lit " 1 ")) (Num (PosInt 1%N)) = true /\
  es_eq (Str (lit "0x10")) (Num (PosInt 16%N)) = true /\
  es_eq (Str (lit "inf")) (Num (PosInt 1%N)) = false /\
  es_eq (Arr [Num (PosInt 1%N)]) (Num (PosInt 1%N)) = true /\
  es_eq (Arr []) (Arr []) = false /\
  es_eq (Bool true) (Str (lit "1")) = true.
Proof. vm_compute. repeat split. Qed.

(** == and != of the code are symmetric, and != is the negation of == (Proofs/ModelLaws.v) *)
Theorem C07_code_symmetric :
  forall a b, abstract_eq a b = abstract_eq b a /\ abstract_ne a b = abstract_ne b a /\
              abstract_ne a b = negb (abstract_eq a b).
Proof. exact (fun a b => conj (code_abstract_eq_sym a b) (conj (code_abstract_ne_sym a b) (code_ne_is_not_eq a b))). Qed.
Print Assumptions C07_code_symmetric.
