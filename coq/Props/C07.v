(** Theorems for C07: filled in below as the proofs land. *)
From JL Require Import Base.Json.
