(** * C09: <, <=, >, >= follow ECMAScript relational comparison, incl. between.
    Statements only; proofs are in Proofs/Compare.v.  The string-to-number scanner lemma is Proofs/Scan.v (str_to_number_spec). *)
From Coq Require Import List Bool.
From JL Require Import Base.Json Base.F64 Base.Str Base.Dec2Flt Base.Monad Model.JsOp Model.Ops Spec.Specs Spec.OpSpecs Proofs.Compare Proofs.Scan Proofs.CharTables Gen.CharTable Proofs.ModelLaws.
From Coq Require Import String NArith ZArith.
Local Open Scope string_scope.
Import ListNotations.

Theorem C09_relational :
  forall a b,
    abstract_lt a b = es_lt a b /\ abstract_lte a b = es_le a b /\
    abstract_gt a b = es_lt b a /\ abstract_gte a b = es_le b a.
Proof.
  intros a b. pose proof str_to_number_spec as H. repeat split.
  - apply abstract_lt_spec, H. - apply abstract_lte_spec, H.
  - apply abstract_gt_spec, H. - apply abstract_gte_spec, H.
Qed.
Print Assumptions C09_relational.

(** a > b is b < a and a >= b is b <= a: the duplicated code paths agree *)
Theorem C09_mirrored :
  forall a b, abstract_gt a b = abstract_lt b a /\ abstract_gte a b = abstract_lte b a.
Proof.
  intros a b. pose proof str_to_number_spec as H. split.
  - rewrite (abstract_gt_spec H), (abstract_lt_spec H). reflexivity.
  - reflexivity.
Qed.
Print Assumptions C09_mirrored.

(** two operands: the comparison; three operands: the conjunction of the adjacent comparisons *)
Theorem C09_between :
  forall f a b c,
    Ops.compare f [a; b] = Ok (Bool (f a b)) /\ Ops.compare f [a; b; c] = Ok (Bool (f a b && f b c)).
Proof. intros f a b c. split; [reflexivity|]. unfold Ops.compare. cbn. destruct (f a b); reflexivity. Qed.
Print Assumptions C09_between.

(** the literal tables of src/js_op.rs, regenerated from the source on every run, are the model's:
    the white space trimmed before a string is read as a number, and the radix prefixes *)
Theorem C09_source_tables :
  (forall c, in_ranges code_js_ws_ranges c = is_js_ws c) /\ (forall s, code_radix s = model_radix s) /\
  (forall s0, str_to_number s0 =
     let s := trim_both is_js_ws s0 in
     match s with
     | nil => Some f64_zero
     | _ => match model_radix s with
            | Some rdx => radix_digits_to_number (skipn 2 s) rdx
            | None => match parse_decimal_prefix s with
                      | Some (v, len) => if Nat.eqb len (List.length s) then Some v else None
                      | None => None
                      end
            end
     end).
Proof. exact (conj code_js_ws_is_model (conj code_radix_is_model str_to_number_uses_model_radix)). Qed.
Print Assumptions C09_source_tables.

Example C09_nonvacuous :
  es_le Null (Num (PosInt 0%N)) = true /\ es_le (Arr [Num (PosInt 1%N)]) (Arr [Num (PosInt 1%N)]) = true /\
  es_lt (Arr [Num (PosInt 10%N)]) (Arr [Num (PosInt 9%N)]) = true /\
  es_lt (Num (PosInt 1%N)) (Str (lit "abc")) = false /\ es_le (Str (lit "abc")) (Num (PosInt 1%N)) = false.
Proof. vm_compute. repeat split. Qed.

(** order laws of the code's relational helpers (Proofs/ModelLaws.v): < is asymmetric, implies <=
    and excludes >=; <= with >= means the operands compare equal.  null <= 0, null >= 0 although
    null == 0 is false: <= is not "< or ==" (the defect repaired in /repo). *)
Theorem C09_order_laws :
  forall a b,
    (abstract_lt a b = true -> abstract_lt b a = false) /\
    (abstract_lt a b = true -> abstract_lte a b = true) /\
    (abstract_lt a b = true -> abstract_gte a b = false) /\
    (abstract_lte a b = true -> abstract_gte a b = true -> es_compare a b = Some Eq).
Proof.
  exact (fun a b => conj (code_lt_asym a b) (conj (code_lt_implies_lte a b)
          (conj (code_lt_excludes_gte a b) (code_lte_gte_compare_eq a b)))).
Qed.
Print Assumptions C09_order_laws.

Theorem C09_null_zero :
  abstract_lte Null (Num (Float f64_zero)) = true /\
  abstract_gte Null (Num (Float f64_zero)) = true /\
  abstract_eq Null (Num (Float f64_zero)) = false /\
  abstract_lt Null (Num (Float f64_zero)) = false.
Proof. exact code_null_lte_zero. Qed.
Print Assumptions C09_null_zero.
