(** * C17: apply is a pure, stateless, thread-safe function of (rule, data).
    Statements only; proofs are in Proofs/Totality.v.

    The model is a Gallina function, so these facts hold of it by construction; their content
    is the claim that a stateless model is the right model of the implementation, which is what
    the correspondence run (histories, permutations, 16 threads on shared inputs, each call
    compared with the same call in a fresh process) supports.  Data races are excluded by Rust's
    &Value signature and the absence of unsafe / interior mutability, not by a theorem here. *)
From Coq Require Import List.
From JL Require Import Base.Json Base.Monad Model.Ops Model.Eval Proofs.Totality.
Import ListNotations.

Theorem C17_history_pointwise :
  forall h i c, nth_error h i = Some c -> nth_error (run_history h) i = Some (apply (fst c) (snd c)).
Proof. exact history_pointwise. Qed.
Print Assumptions C17_history_pointwise.

Theorem C17_history_concat : forall h1 h2, run_history (h1 ++ h2) = run_history h1 ++ run_history h2.
Proof. exact history_app. Qed.
Print Assumptions C17_history_concat.

Theorem C17_history_reversed : forall h, run_history (rev h) = rev (run_history h).
Proof. exact history_rev. Qed.
Print Assumptions C17_history_reversed.

Theorem C17_history_repeated : forall c k, run_history (repeat c k) = repeat (apply (fst c) (snd c)) k.
Proof. exact history_repeat. Qed.
Print Assumptions C17_history_repeated.

Theorem C17_log_effect : forall v, op_log [v] = ([v], Ok v).
Proof. exact log_effect. Qed.
Print Assumptions C17_log_effect.
