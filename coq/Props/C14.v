(** * C14: all / some / none are bounded quantifiers with short-circuit; none = not some.
    Statements only; proofs are in Proofs/Arrays.v and Proofs/ArrayFacts.v. *)
From Coq Require Import List Bool.
From JL Require Import Base.Json Base.Lits Base.Monad Model.Ops Spec.Specs Spec.OpSpecs.
From JL Require Import Proofs.MonadLaws Proofs.Arrays Proofs.ArrayFacts.
Import ListNotations.
Local Open Scope m_scope.

(** For every parser P and evaluator E that returns string literals unchanged (the real one
    does): all / some / none are the specification quant_spec - collection normalised (literal
    array with element expressions evaluated against the outer data as reached; value of an
    operation; string by character; null; else an error), false on empty, then forallM / existsM
    of "the predicate is truthy", evaluated left to right and stopping at the deciding element. *)
Theorem C14_all_is_spec :
  forall (parsed : Type) (P : value -> outcome parsed) (E : parsed -> value -> M value),
    (forall s d, pe parsed P E (Str s) d = ret (Str s)) ->
    forall d c p, all_ parsed P E d [c; p] = quant_spec (pe parsed P E) (chk parsed P) true d c p.
Proof. exact all_is_spec. Qed.
Print Assumptions C14_all_is_spec.

Theorem C14_some_is_spec :
  forall (parsed : Type) (P : value -> outcome parsed) (E : parsed -> value -> M value),
    (forall s d, pe parsed P E (Str s) d = ret (Str s)) ->
    forall d c p, some_ parsed P E d [c; p] = quant_spec (pe parsed P E) (chk parsed P) false d c p.
Proof. exact some_is_spec. Qed.
Print Assumptions C14_some_is_spec.

Theorem C14_none_is_spec :
  forall (parsed : Type) (P : value -> outcome parsed) (E : parsed -> value -> M value),
    (forall s d, pe parsed P E (Str s) d = ret (Str s)) ->
    forall d c p, none_ parsed P E d [c; p] = none_spec (pe parsed P E) (chk parsed P) d c p.
Proof. exact none_is_spec. Qed.
Print Assumptions C14_none_is_spec.

(** none is the exact negation of some, with the same errors and the same log lines *)
Theorem C14_none_negates_some :
  forall ev chk d c p t b,
    quant_spec ev chk false d c p = (t, Ok (Bool b)) -> none_spec ev chk d c p = (t, Ok (Bool (negb b))).
Proof. exact none_negates_some. Qed.
Print Assumptions C14_none_negates_some.

Theorem C14_none_fails_with_some :
  forall ev chk d c p t e,
    quant_spec ev chk false d c p = (t, Err e) -> none_spec ev chk d c p = (t, Err e).
Proof. exact none_fails_with_some. Qed.
Print Assumptions C14_none_fails_with_some.

Theorem C14_empty_is_false :
  forall ev chk is_all d p,
    quant_spec ev chk is_all d (Arr []) p = ret (Bool false) /\
    quant_spec ev chk is_all d Null p = ret (Bool false) /\
    quant_spec ev chk is_all d (Str []) p = ret (Bool false).
Proof. exact quant_empty. Qed.
Print Assumptions C14_empty_is_false.

(** Short circuit: whatever follows the deciding element is irrelevant (value, error, log). *)
Theorem C14_all_stops :
  forall (q : value -> M bool) xs x ys ys' t,
    forallM q xs = (t, Ok true) -> (exists t', q x = (t', Ok false)) ->
    forallM q (xs ++ x :: ys) = forallM q (xs ++ x :: ys').
Proof. exact forallM_stops. Qed.
Print Assumptions C14_all_stops.

Theorem C14_some_stops :
  forall (q : value -> M bool) xs x ys ys' t,
    existsM q xs = (t, Ok false) -> (exists t', q x = (t', Ok true)) ->
    existsM q (xs ++ x :: ys) = existsM q (xs ++ x :: ys').
Proof. exact existsM_stops. Qed.
Print Assumptions C14_some_stops.
