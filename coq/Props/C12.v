(** * C12: missing / missing_some report exactly the keys that var cannot find.
    Statements only; proofs are in Proofs/Data.v and Proofs/DataFacts.v. *)
From Coq Require Import List ZArith NArith.
From JL Require Import Base.Json Base.Str Base.Monad Model.Ops Spec.Specs Spec.OpSpecs Proofs.Data Proofs.DataFacts.
Import ListNotations.

Theorem C12_missing_is_spec : forall d args, op_missing d args = missing_spec d args.
Proof. exact op_missing_spec. Qed.
Print Assumptions C12_missing_is_spec.

Theorem C12_missing_some_is_spec :
  forall d a b,
    op_missing_some d [a; b] =
    match a, b with
    | Num n, Arr keys => match as_u64 n with
                         | Some need => missing_some_spec d need keys
                         | None => Err InvalidArgument
                         end
    | _, _ => Err InvalidArgument
    end.
Proof. exact op_missing_some_spec. Qed.
Print Assumptions C12_missing_some_is_spec.

(** the lookup is the one var uses: a key is reported missing exactly when var finds nothing for it *)
Theorem C12_agrees_with_var :
  forall d k, lookup_spec d k = Ok None <-> (forall s, var_spec d [k; s] = Ok s).
Proof. exact missing_iff_var_default. Qed.
Print Assumptions C12_agrees_with_var.

(** exactly the requested non-null keys whose lookup finds nothing *)
Theorem C12_missing_exact :
  forall d keys m k, missing_keys d keys = Ok m ->
    (In k m <-> In k keys /\ is_null k = false /\ lookup_spec d k = Ok None).
Proof. exact missing_keys_in. Qed.
Print Assumptions C12_missing_exact.

Theorem C12_present_not_missing :
  forall d keys m k v, missing_keys d keys = Ok m -> lookup_spec d k = Ok (Some v) -> ~ In k m.
Proof. exact present_not_missing. Qed.
Print Assumptions C12_present_not_missing.

(** an absent key is never counted as present, however many times it is listed *)
Theorem C12_absent_never_counted :
  forall d k r, lookup_spec d k = Ok None -> count_present d (k :: r) = count_present d r.
Proof. exact absent_never_counted. Qed.
Print Assumptions C12_absent_never_counted.

Theorem C12_threshold :
  forall d need keys m, missing_keys d keys = Ok m ->
    missing_some_spec d need keys =
    if (need <=? N.of_nat (count_present d keys))%N then Ok (Arr []) else Ok (Arr (dedup m [])).
Proof. exact missing_some_threshold. Qed.
Print Assumptions C12_threshold.

Example C12_nonvacuous :
  missing_some_spec (Obj []) 1 [Str [97]%N; Str [97]%N] = Ok (Arr [Str [97]%N]) /\
  missing_spec (Obj [([97]%N, Null)]) [Str [97]%N; Null; Str [98]%N] = Ok (Arr [Str [98]%N]).
Proof. vm_compute. split; reflexivity. Qed.
