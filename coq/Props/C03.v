(** * C03: every operator enforces its arity; {op: x} means exactly {op: [x]}.
    Statements only; proofs are in Proofs/Tables.v and Proofs/Arity.v. *)
From Coq Require Import List String NArith Bool.
From JL Require Import Base.Json Base.Lits Base.Monad Model.Ops Model.Table Gen.OpTable Model.Eval.
From JL Require Import Spec.Specs Proofs.Tables Proofs.Parse Proofs.Literal Proofs.Arity.
Import ListNotations.
Local Open Scope string_scope.

(** For each of the 35 names, the length predicate generated from the source accepts exactly
    the documented operand counts - for every count n, not just 0..6. *)
Theorem C03_arity_table :
  forall k o, In (k, o) op_names -> forall n,
    match np_of k with Some p => is_valid_len p n | None => false end = documented o n.
Proof. exact arity_documented. Qed.
Print Assumptions C03_arity_table.

(** Any other count is rejected with WrongArgumentCount whatever the operands are (they are
    not even parsed): no surplus operand is ignored, no default invented. *)
Theorem C03_wrong_count_rejected :
  forall k o args, name_of k = Some o -> documented o (List.length args) = false ->
    parse (Obj [(k, Arr args)]) = Err WrongArgumentCount.
Proof. exact wrong_count_rejected. Qed.
Print Assumptions C03_wrong_count_rejected.

(** A single non-array operand without brackets parses like the bracketed form ... *)
Theorem C03_unary_sugar_parse :
  forall k o x, name_of k = Some o -> (forall l, x <> Arr l) ->
    same_or_both_err (parse (Obj [(k, x)])) (parse (Obj [(k, Arr [x])])).
Proof. exact sugar_parse. Qed.
Print Assumptions C03_unary_sugar_parse.

(** ... hence evaluates like it: the same value and log lines, or an error in both cases. *)
Theorem C03_unary_sugar :
  forall k o x n d, name_of k = Some o -> (forall l, x <> Arr l) ->
    msame (apply_fuel n (Obj [(k, x)]) d) (apply_fuel n (Obj [(k, Arr [x])]) d).
Proof. exact sugar_eval. Qed.
Print Assumptions C03_unary_sugar.

Example C03_nonvacuous :
  parse (Obj [(lit "var", Arr [Str (lit "a"); Null; Null])]) = Err WrongArgumentCount /\
  snd (apply (Obj [(lit "!", Bool true)]) Null) = Ok (Bool false) /\
  snd (apply (Obj [(lit "!", Arr [Bool true])]) Null) = Ok (Bool false).
Proof. vm_compute. repeat split. Qed.
