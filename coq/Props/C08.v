(** Theorems for C08: filled in below as the proofs land. *)
From JL Require Import Base.Json.
