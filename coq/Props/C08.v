(** * C08: === and !== compare primitives by type and value; containers are never equal.
    Statements only. *)
From Coq Require Import List Bool.
From JL Require Import Base.Json Base.Monad Model.JsOp Model.Ops Spec.Specs Proofs.OpsBasic Proofs.Floats Proofs.Extra Proofs.Compare Proofs.ModelLaws.
Import ListNotations.

(** the operator calls strict_eq on two distinct slots of a freshly collected operand vector, so
    the pointer-identity shortcut cannot fire: [same_ref = false] *)
Theorem C08_strict_eq : forall a b, strict_eq false a b = es_strict_eq a b.
Proof. exact strict_eq_spec. Qed.
Print Assumptions C08_strict_eq.

Theorem C08_strict_ne : forall a b, strict_ne false a b = negb (es_strict_eq a b).
Proof. reflexivity. Qed.
Print Assumptions C08_strict_ne.

Theorem C08_operator : forall a b, op_strict_eq [a; b] = Ok (Bool (es_strict_eq a b))
                               /\ op_strict_ne [a; b] = Ok (Bool (negb (es_strict_eq a b))).
Proof. intros; split; reflexivity. Qed.
Print Assumptions C08_operator.

(** containers are never strictly equal to anything *)
Theorem C08_containers : forall a b, is_container a = true \/ is_container b = true -> es_strict_eq a b = false.
Proof. intros a b [H|H]; destruct a, b; try discriminate; reflexivity. Qed.
Print Assumptions C08_containers.

Theorem C08_symmetric : forall a b, es_strict_eq a b = es_strict_eq b a.
Proof.
  intros a b; destruct a, b; try reflexivity; cbn [es_strict_eq].
  - destruct b, b0; reflexivity.
  - apply f64_eqb_sym.
  - apply str_eqb_sym.
Qed.
Print Assumptions C08_symmetric.

(** whenever === holds, == holds too - on the specifications, hence (C07_eq) on the code's helpers *)
Theorem C08_strict_implies_abstract : forall a b, es_strict_eq a b = true -> es_eq a b = true.
Proof. exact strict_implies_abstract. Qed.
Print Assumptions C08_strict_implies_abstract.

(** the same two laws stated on the code's own helpers (Proofs/ModelLaws.v) *)
Theorem C08_code_symmetric : forall a b, strict_eq false a b = strict_eq false b a.
Proof. exact code_strict_eq_sym. Qed.
Print Assumptions C08_code_symmetric.

Theorem C08_code_strict_implies_abstract : forall a b, strict_eq false a b = true -> abstract_eq a b = true.
Proof. exact code_strict_implies_abstract. Qed.
Print Assumptions C08_code_strict_implies_abstract.
