(** * C11: var resolves paths through objects, arrays and strings; absent means default.
    Statements only; proofs are in Proofs/Data.v and Proofs/DataFacts.v. *)
From Coq Require Import List ZArith NArith.
From JL Require Import Base.Json Base.Str Base.Monad Model.Ops Spec.Specs Spec.OpSpecs Proofs.Data Proofs.DataFacts.
Import ListNotations.

(** the model's var is the specification: key typing (null / "" / path / integer), path
    splitting with escapes, descent by key / index / character with negative indices from the end *)
Theorem C11_var_is_spec : forall d args, length args <= 2 -> op_var d args = var_spec d args.
Proof. exact op_var_spec. Qed.
Print Assumptions C11_var_is_spec.

Theorem C11_split : forall p, split_with_escape p = split_spec p.
Proof. exact split_with_escape_spec. Qed.
Print Assumptions C11_split.

Theorem C11_index : forall (l : list value) i, get_idx l i = index_spec l i.
Proof. exact (@get_idx_spec value). Qed.
Print Assumptions C11_index.

(** a present value - even null - wins over the default; an absent one gives the default, else null *)
Theorem C11_present_wins :
  forall d k v dflt, lookup_spec d k = Ok (Some v) -> var_spec d [k; dflt] = Ok v /\ var_spec d [k] = Ok v.
Proof. exact var_present_wins. Qed.
Print Assumptions C11_present_wins.

Theorem C11_absent_default :
  forall d k dflt, lookup_spec d k = Ok None -> var_spec d [k; dflt] = Ok dflt /\ var_spec d [k] = Ok Null.
Proof. exact var_absent. Qed.
Print Assumptions C11_absent_default.

Theorem C11_whole_data :
  forall d dflt,
    var_spec d [] = Ok d /\ var_spec d [Null] = Ok d /\ var_spec d [Str []] = Ok d /\
    var_spec d [Null; dflt] = Ok d /\ var_spec d [Str []; dflt] = Ok d.
Proof. exact var_whole. Qed.
Print Assumptions C11_whole_data.

(** frame: members of an object that the path does not name never influence the result *)
Theorem C11_frame :
  forall m k x seg rest, str_eqb seg k = false ->
    resolve (seg :: rest) (Obj (obj_insert m k x)) = resolve (seg :: rest) (Obj m).
Proof. exact resolve_frame. Qed.
Print Assumptions C11_frame.

Example C11_nonvacuous :
  split_spec [97; 92; 46; 98; 46; 99]%N = [[97; 46; 98]; [99]]%N /\       (* a\.b.c *)
  index_spec [1; 2; 3]%N (-1) = Some 3%N /\
  lookup_spec (Obj [([97]%N, Null)]) (Str [97]%N) = Ok (Some Null) /\
  lookup_spec (Str [104; 233]%N) (Num (NegInt (-1))) = Ok (Some (Str [233]%N)).
Proof. vm_compute. repeat split. Qed.
