(** * The literal tables of js_op.rs, regenerated from the source on every run
      (Gen/CharTable.v), are the tables of the model - for every code point / every string. *)
From Coq Require Import List NArith ZArith Bool Lia.
From JL Require Import Base.Json Base.F64 Base.Str Base.Dec2Flt Gen.CharTable.
Import ListNotations.
Local Open Scope N_scope.

Definition in_ranges (rs : list (N * N)) (c : N) : bool :=
  existsb (fun r => (fst r <=? c) && (c <=? snd r)) rs.

(** is_js_whitespace *)
Lemma code_js_ws_is_model : forall c, in_ranges code_js_ws_ranges c = is_js_ws c.
Proof.
  intros c. unfold in_ranges, code_js_ws_ranges, is_js_ws. cbn [existsb fst snd].
  apply eq_true_iff_eq.
  rewrite ?orb_true_iff, ?andb_true_iff, ?N.leb_le, ?N.eqb_eq. lia.
Qed.

(** the radix prefixes of str_to_number *)
Fixpoint lookup_prefix (ps : list (N * N * N)) (a b : N) : option N :=
  match ps with
  | [] => None
  | (x, y, r) :: rest => if (a =? x) && (b =? y) then Some r else lookup_prefix rest a b
  end.

Definition code_radix (s : str) : option N :=
  match s with
  | a :: b :: _ => lookup_prefix code_radix_prefixes a b
  | _ => None
  end.

(** the expression inside the model's str_to_number (see [str_to_number_uses_model_radix]) *)
Definition model_radix (s : str) : option N :=
  match s with
  | 48 :: c :: _ =>
      if (c =? 120) || (c =? 88) then Some 16
      else if (c =? 111) || (c =? 79) then Some 8
      else if (c =? 98) || (c =? 66) then Some 2
      else None
  | _ => None
  end.

Lemma str_to_number_uses_model_radix s0 :
  str_to_number s0 =
  let s := trim_both is_js_ws s0 in
  match s with
  | [] => Some f64_zero
  | _ => match model_radix s with
         | Some rdx => radix_digits_to_number (skipn 2 s) rdx
         | None => match parse_decimal_prefix s with
                   | Some (v, len) => if Nat.eqb len (length s) then Some v else None
                   | None => None
                   end
         end
  end.
Proof. reflexivity. Qed.

Lemma not_48 {A} (a : N) (x y : A) : a <> 48 -> (match a with 48 => x | _ => y end) = y.
Proof.
  intros H. destruct a as [|p]; [reflexivity|].
  do 6 (try destruct p as [p|p|]); try reflexivity. contradiction H; reflexivity.
Qed.

Lemma code_radix_is_model : forall s, code_radix s = model_radix s.
Proof.
  intros [|a [|b r]]; [reflexivity| |].
  - unfold code_radix, model_radix. destruct (N.eq_dec a 48) as [->|Ha]; [reflexivity|].
    symmetry. apply (not_48 a _ _ Ha).
  - unfold code_radix, model_radix, code_radix_prefixes. cbn [lookup_prefix].
    destruct (N.eq_dec a 48) as [->|Ha].
    + change (48 =? 48) with true. cbn [andb].
      (* whatever the order of the entries in the source *)
      destruct (N.eqb_spec b 120) as [->|?]; [reflexivity|]. destruct (N.eqb_spec b 88) as [->|?]; [reflexivity|].
      destruct (N.eqb_spec b 111) as [->|?]; [reflexivity|]. destruct (N.eqb_spec b 79) as [->|?]; [reflexivity|].
      destruct (N.eqb_spec b 98) as [->|?]; [reflexivity|]. destruct (N.eqb_spec b 66) as [->|?]; reflexivity.
    + rewrite (not_48 a _ _ Ha). apply N.eqb_neq in Ha. rewrite Ha. reflexivity.
Qed.
