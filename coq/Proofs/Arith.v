(** * C10: the arithmetic operators of the model against the specification. *)
From Coq Require Import List ZArith NArith Bool Arith Lia.
From Coq Require Import Floats.SpecFloat.
From JL Require Import Base.Json Base.Lits Base.F64 Base.Str Base.Dec2Flt Base.Monad Model.JsOp Model.Ops.
From JL Require Import Spec.Specs Spec.OpSpecs Spec.RefEval Proofs.Floats Proofs.OpsBasic.
Import ListNotations.
Local Open Scope Z_scope.

(** ** narrowing: f64 -> JSON number *)
Definition exact_int (f : f64) : Prop :=      (* f is finite and integral *)
  fract_is_zero f = true.

Lemma pow2_pos e : 0 <= e -> 0 < 2 ^ e.
Proof. intros. apply Z.pow_pos_nonneg; lia. Qed.

(** for an integral f, comparing f with the float c * 2^ec (ec >= 0) is comparing integers *)
Lemma compare_integral_const s m e sc mc ec :
  fract_is_zero (S754_finite s m e) = true -> 0 <= ec ->
  f64_compare (S754_finite s m e) (S754_finite sc mc ec) =
  Some (Z.compare (f64_trunc_Z (S754_finite s m e)) ((if sc then Z.neg mc else Z.pos mc) * 2 ^ ec)).
Proof.
  intros Hf Hec. unfold f64_compare. cbn [f64_scaled f64_trunc_Z]. f_equal.
  set (ms := if s then Z.neg m else Z.pos m). set (c := if sc then Z.neg mc else Z.pos mc).
  cbn [fract_is_zero] in Hf.
  destruct (Z.leb_spec 0 e) as [He|He].
  - (* e >= 0: scale both sides back by 2^(min e ec) *)
    set (k := Z.min e ec). assert (Hk : 0 <= k) by (unfold k; lia).
    assert (Hl : (if s then - (Z.pos m * 2 ^ e) else Z.pos m * 2 ^ e) = ms * 2 ^ e) by (unfold ms; destruct s; lia).
    rewrite Hl.
    replace (ms * 2 ^ e) with ((ms * 2 ^ (e - k)) * 2 ^ k)
      by (rewrite <- Z.mul_assoc, <- Z.pow_add_r by (unfold k; lia); f_equal; f_equal; lia).
    replace (c * 2 ^ ec) with ((c * 2 ^ (ec - k)) * 2 ^ k)
      by (rewrite <- Z.mul_assoc, <- Z.pow_add_r by (unfold k; lia); f_equal; f_equal; lia).
    rewrite <- Zmult_compare_compat_r by (apply Z.lt_gt, pow2_pos; exact Hk). reflexivity.
  - (* e < 0: the mantissa is a multiple of 2^(-e) *)
    apply Z.eqb_eq in Hf. rewrite Z.min_l by lia. rewrite Z.sub_diag, Z.mul_1_r.
    set (p := 2 ^ (- e)). assert (Hp : 0 < p) by (apply pow2_pos; lia).
    assert (Hm : Z.pos m = (Z.pos m / p) * p).
    { rewrite (Z.div_mod (Z.pos m) p) at 1 by lia. fold p in Hf. rewrite Hf. lia. }
    assert (Ht : (if s then - (Z.pos m / p) else Z.pos m / p) * p = ms).
    { unfold ms. destruct s; lia. }
    rewrite <- Ht. replace (ec - e) with (ec + - e) by lia. rewrite Z.pow_add_r by lia. fold p.
    rewrite Z.mul_assoc. rewrite <- Zmult_compare_compat_r by (apply Z.lt_gt; exact Hp). reflexivity.
Qed.

Lemma const_m63 : f64_of_Z (- two63) = S754_finite true 4503599627370496 11. Proof. reflexivity. Qed.
Lemma const_p63 : f64_of_Z two63 = S754_finite false 4503599627370496 11. Proof. reflexivity. Qed.
Lemma const_p64 : f64_of_Z two64 = S754_finite false 4503599627370496 12. Proof. reflexivity. Qed.

Lemma f64_compare_flip a b c : f64_compare a b = Some c -> f64_compare b a = Some (CompOpp c).
Proof. intros H. rewrite f64_compare_sym, H. reflexivity. Qed.

(** the three range tests of to_number_value, on an integral finite f, in terms of its integer value *)
Lemma range_tests s m e :
  fract_is_zero (S754_finite s m e) = true ->
  let f := S754_finite s m e in let z := f64_trunc_Z f in
  f64_leb (f64_of_Z (- two63)) f = (- two63 <=? z) /\
  f64_ltb f (f64_of_Z two63) = (z <? two63) /\
  f64_leb f64_zero f = (0 <=? z) /\
  f64_ltb f (f64_of_Z two64) = (z <? two64).
Proof.
  intros Hf f z.
  assert (H11 : 0 <= 11) by lia. assert (H12 : 0 <= 12) by lia.
  pose proof (compare_integral_const s m e true 4503599627370496 11 Hf H11) as C1.
  pose proof (compare_integral_const s m e false 4503599627370496 11 Hf H11) as C2.
  pose proof (compare_integral_const s m e false 4503599627370496 12 Hf H12) as C3.
  fold f in C1, C2, C3. fold z in C1, C2, C3.
  cbv beta iota in C1, C2, C3.
  assert (K1 : Z.neg 4503599627370496 * 2 ^ 11 = - two63) by reflexivity.
  assert (K2 : Z.pos 4503599627370496 * 2 ^ 11 = two63) by reflexivity.
  assert (K3 : Z.pos 4503599627370496 * 2 ^ 12 = two64) by reflexivity.
  rewrite K1 in C1. rewrite K2 in C2. rewrite K3 in C3. clear K1 K2 K3.
  rewrite const_m63, const_p63, const_p64.
  repeat split.
  - unfold f64_leb. rewrite (f64_compare_flip _ _ _ C1).
    destruct (Z.compare_spec z (- two63)); destruct (Z.leb_spec (- two63) z); simpl; try reflexivity; lia.
  - unfold f64_ltb. rewrite C2.
    destruct (Z.compare_spec z two63); destruct (Z.ltb_spec z two63); simpl; try reflexivity; lia.
  - (* the sign decides *)
    assert (Hmag : 0 < (if 0 <=? e then Z.pos m * 2 ^ e else Z.pos m / 2 ^ (- e))).
    { destruct (Z.leb_spec 0 e) as [He|He].
      - pose proof (pow2_pos e He). nia.
      - cbn [fract_is_zero] in Hf. destruct (Z.leb_spec 0 e); [lia|]. apply Z.eqb_eq in Hf.
        pose proof (pow2_pos (- e) ltac:(lia)) as Hp.
        pose proof (Z.div_mod (Z.pos m) (2 ^ (- e)) ltac:(lia)) as Hd. rewrite Hf in Hd.
        assert (0 <= Z.pos m / 2 ^ (- e)) by (apply Z.div_pos; lia). nia. }
    unfold z, f. unfold f64_leb, f64_zero, f64_compare. cbn [f64_scaled f64_trunc_Z].
    set (k := e - Z.min 0 e). assert (Hk : 0 <= k) by (unfold k; lia). pose proof (pow2_pos k Hk) as Hpk.
    rewrite Z.mul_0_l.
    destruct s.
    + assert (Hn : Z.neg m * 2 ^ k < 0) by nia.
      destruct (Z.compare_spec 0 (Z.neg m * 2 ^ k)); try lia.
      all: destruct (Z.leb_spec 0 (- (if 0 <=? e then Z.pos m * 2 ^ e else Z.pos m / 2 ^ (- e)))); [lia | reflexivity].
    + assert (Hn : 0 < Z.pos m * 2 ^ k) by nia.
      destruct (Z.compare_spec 0 (Z.pos m * 2 ^ k)); try lia.
      all: destruct (Z.leb_spec 0 (if 0 <=? e then Z.pos m * 2 ^ e else Z.pos m / 2 ^ (- e))); [reflexivity | lia].
  - unfold f64_ltb. rewrite C3.
    destruct (Z.compare_spec z two64); destruct (Z.ltb_spec z two64); simpl; try reflexivity; lia.
Qed.

Lemma range_tests_zero sgn :
  let f := S754_zero sgn in
  fract_is_zero f = true /\ f64_leb (f64_of_Z (- two63)) f = true /\ f64_ltb f (f64_of_Z two63) = true /\
  f64_as_i64 f = 0 /\ f64_trunc_Z f = 0.
Proof. destruct sgn; repeat split; reflexivity. Qed.

(** to_number_value is the canonical narrowing of the specification, for every double *)
Theorem to_number_value_spec f : to_number_value f = canonical_num f.
Proof.
  unfold to_number_value, canonical_num, fits_64.
  destruct f as [sg|sg| |s m e].
  - destruct sg; reflexivity.
  - destruct sg; reflexivity.
  - reflexivity.
  - cbn [is_finite negb].
    destruct (fract_is_zero (S754_finite s m e)) eqn:Hf; cbn [andb].
    2:{ reflexivity. }
    destruct (range_tests s m e Hf) as [R1 [R2 [R3 R4]]]. cbv zeta in R1, R2, R3, R4.
    rewrite R1, R2, R3, R4.
    set (z := f64_trunc_Z (S754_finite s m e)) in *.
    unfold f64_as_i64, f64_as_u64. fold z. unfold num_of_i64, num_of_u64.
    destruct (Z.leb_spec (- two63) z), (Z.ltb_spec z two63), (Z.leb_spec 0 z), (Z.ltb_spec z two64);
      cbn [andb]; unfold two63, two64 in *; try lia.
    all: try (rewrite Z.max_r, Z.min_r by lia).
    all: try (destruct (Z.ltb_spec z 0); try lia; reflexivity).
    all: try reflexivity.
    all: try (rewrite Z.max_r by lia; rewrite Z.min_r by lia; destruct (Z.ltb_spec z 0); try lia; reflexivity).
Qed.

(** ** conversions *)
Section ArithOps.
  Hypothesis str_num : forall s, str_to_number s = es_str_to_number s.
  Hypothesis pf_str : forall s, parse_float_string s = es_parse_float_str s.

  Lemma to_number_spec' v : to_number v = es_to_number v.
  Proof.
    destruct v; cbn [to_number to_primitive to_primitive_number es_to_number]; try reflexivity;
      rewrite ?str_num, ?to_string_eq; reflexivity.
  Qed.

  Lemma parse_float_spec v : parse_float v = es_parse_float v.
  Proof. destruct v; cbn [parse_float es_parse_float]; rewrite ?pf_str, ?to_string_eq; reflexivity. Qed.

  (** the early-error fold over converted operands *)
  Lemma fold_num_err (conv : value -> option f64) (step : f64 -> f64 -> f64) (items : list value) e :
    fold_left (fun acc v => obind acc (fun a => match conv v with Some n => Ok (step a n) | None => Err InvalidArgument end))
              items (Err e) = Err e.
  Proof. induction items as [|x r IH]; [reflexivity | exact IH]. Qed.

  Lemma fold_num_spec (conv conv' : value -> option f64) (step : f64 -> f64 -> f64) init items :
    (forall v, conv v = conv' v) ->
    fold_num conv step init items =
    match convert_all conv' items with
    | Some xs => Ok (fold_left step xs init)
    | None => Err InvalidArgument
    end.
  Proof.
    intros Hc. unfold fold_num. revert init. induction items as [|x r IH]; intros init; [reflexivity|].
    cbn [fold_left convert_all obind]. rewrite Hc. destruct (conv' x) as [n|].
    - rewrite IH. destruct (convert_all conv' r); reflexivity.
    - rewrite fold_num_err. reflexivity.
  Qed.

  Lemma bind_narrow (o : outcome f64) :
    obind o to_number_value = match o with Ok f => canonical_num f | Err e => Err e | Panic => Panic | OutOfFuel => OutOfFuel end.
  Proof. destruct o; try reflexivity. apply to_number_value_spec. Qed.

  Theorem op_add_spec vs : op_add vs = arith_spec OAdd vs.
  Proof.
    unfold op_add, parse_float_add, arith_spec, arith_value.
    rewrite (fold_num_spec parse_float es_parse_float) by apply parse_float_spec. rewrite bind_narrow.
    destruct (convert_all es_parse_float vs); reflexivity.
  Qed.

  Theorem op_mul_spec vs : op_mul vs = arith_spec OMul vs.
  Proof.
    unfold op_mul, parse_float_mul, arith_spec, arith_value.
    rewrite (fold_num_spec parse_float es_parse_float) by apply parse_float_spec. rewrite bind_narrow.
    destruct (convert_all es_parse_float vs); reflexivity.
  Qed.

  Theorem op_max_spec vs : op_max vs = arith_spec OMax vs.
  Proof.
    unfold op_max, abstract_max, arith_spec, arith_value.
    rewrite (fold_num_spec to_number es_to_number) by apply to_number_spec'. rewrite bind_narrow.
    destruct (convert_all es_to_number vs); reflexivity.
  Qed.

  Theorem op_min_spec vs : op_min vs = arith_spec OMin vs.
  Proof.
    unfold op_min, abstract_min, arith_spec, arith_value.
    rewrite (fold_num_spec to_number es_to_number) by apply to_number_spec'. rewrite bind_narrow.
    destruct (convert_all es_to_number vs); reflexivity.
  Qed.

  Lemma num_binop_spec op a b :
    obind (num_binop op a b) to_number_value =
    match convert_all es_to_number [a; b] with
    | Some [x; y] => canonical_num (op x y)
    | _ => Err InvalidArgument
    end.
  Proof.
    unfold num_binop. cbn [convert_all]. rewrite !to_number_spec'.
    destruct (es_to_number a), (es_to_number b); try reflexivity. cbn [obind]. apply to_number_value_spec.
  Qed.

  Theorem op_div_spec a b : op_div [a; b] = arith_spec ODiv [a; b].
  Proof.
    unfold op_div, bin_num, abstract_div. unfold idx; cbn [nth_error obind].
    rewrite num_binop_spec. unfold arith_spec, arith_value. cbn [convert_all].
    destruct (es_to_number a), (es_to_number b); reflexivity.
  Qed.

  Theorem op_mod_spec a b : op_mod [a; b] = arith_spec OMod [a; b].
  Proof.
    unfold op_mod, bin_num, abstract_mod. unfold idx; cbn [nth_error obind].
    rewrite num_binop_spec. unfold arith_spec, arith_value. cbn [convert_all].
    destruct (es_to_number a), (es_to_number b); reflexivity.
  Qed.

  Theorem op_minus_spec vs : (length vs = 1 \/ length vs = 2)%nat -> op_minus vs = arith_spec OSub vs.
  Proof.
    intros H. destruct vs as [|a [|b [|c r]]]; simpl in H; try lia.
    - unfold op_minus, to_negative. unfold idx; cbn [length Nat.eqb nth_error obind].
      rewrite to_number_spec'. unfold arith_spec, arith_value. cbn [convert_all].
      destruct (es_to_number a); [apply to_number_value_spec | reflexivity].
    - unfold op_minus, abstract_minus. unfold idx; cbn [length Nat.eqb nth_error obind].
      change (obind (num_binop f64_sub a b) (fun v => to_number_value v)) with (obind (num_binop f64_sub a b) to_number_value).
      rewrite num_binop_spec. unfold arith_spec, arith_value. cbn [convert_all].
      destruct (es_to_number a), (es_to_number b); reflexivity.
  Qed.
End ArithOps.
