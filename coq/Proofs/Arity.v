(** * C03: arity enforcement and the unary-operand sugar, on the model's parser. *)
From Coq Require Import List ZArith NArith Bool Lia.
From JL Require Import Base.Json Base.Lits Base.Monad Model.Ops Model.Table Gen.OpTable Model.Eval.
From JL Require Import Spec.Specs Proofs.MonadLaws Proofs.Tables Proofs.Parse Proofs.Literal.
Import ListNotations.
Local Open Scope m_scope.

(** the num_params the parser consults for key k *)
Lemma np_of_eager k e : lookup e_key eager_table k = Some e -> np_of k = Some (e_np e).
Proof. intros H. unfold np_of, kind_of. rewrite H. reflexivity. Qed.
Lemma np_of_lazy k e : lookup e_key eager_table k = None -> lookup l_key lazy_meta k = Some e -> np_of k = Some (l_np e).
Proof. intros H1 H2. unfold np_of, kind_of. rewrite H1, H2. reflexivity. Qed.
Lemma np_of_data k e : lookup e_key eager_table k = None -> lookup l_key lazy_meta k = None ->
  lookup d_key data_table k = Some e -> np_of k = Some (d_np e).
Proof. intros H1 H2 H3. unfold np_of, kind_of. rewrite H1, H2, H3. reflexivity. Qed.

Lemma documented_is_valid k o p n : name_of k = Some o -> np_of k = Some p -> is_valid_len p n = documented o n.
Proof.
  intros H Hp. apply name_lookup_some in H. pose proof (arity_documented k o H n) as A.
  rewrite Hp in A. exact A.
Qed.

(** a count outside the documented set is rejected with WrongArgumentCount, whatever the operands *)
Lemma wrong_count_rejected k o args :
  name_of k = Some o -> documented o (length args) = false ->
  parse (Obj [(k, Arr args)]) = Err WrongArgumentCount.
Proof.
  intros H Hd. destruct (name_in_tables k o H) as [kd [np K]]. unfold kind_of in K.
  destruct (lookup e_key eager_table k) as [e|] eqn:HE.
  - rewrite (parse_eager k _ e HE). unfold parse_args.
    rewrite (documented_is_valid k o (e_np e) _ H (np_of_eager k e HE)), Hd. reflexivity.
  - destruct (lookup l_key lazy_meta k) as [e|] eqn:HL.
    + rewrite (parse_lazy k _ e HE HL). unfold op_args. cbn [obind].
      rewrite (documented_is_valid k o (l_np e) _ H (np_of_lazy k e HE HL)), Hd. reflexivity.
    + destruct (lookup d_key data_table k) as [e|] eqn:HD; [|discriminate].
      rewrite (parse_data k _ e HE HL HD). unfold parse_args.
      rewrite (documented_is_valid k o (d_np e) _ H (np_of_data k e HE HL HD)), Hd. reflexivity.
Qed.

(** the two spellings of a single non-array operand parse alike *)
Definition same_or_both_err {A} (a b : outcome A) : Prop :=
  a = b \/ (is_err a = true /\ is_err b = true).

Lemma sugar_parse k o x :
  name_of k = Some o -> (forall l, x <> Arr l) ->
  same_or_both_err (parse (Obj [(k, x)])) (parse (Obj [(k, Arr [x])])).
Proof.
  intros H Hx. apply name_lookup_some in H as Hin.
  pose proof (unary_sugar_consistent k o Hin) as U.
  destruct (name_in_tables k o H) as [kd [np K]]. unfold kind_of in K.
  destruct (lookup e_key eager_table k) as [e|] eqn:HE.
  - rewrite !(parse_eager k _ e HE). rewrite (np_of_eager k e HE) in U.
    unfold parse_args. cbn [length omapM].
    destruct x; try (exfalso; eapply Hx; reflexivity);
      (destruct (can_accept_unary (e_np e));
       [ left; destruct (is_valid_len (e_np e) 1); [|reflexivity];
         match goal with |- context [parse ?v] => destruct (parse v); reflexivity end
       | right; rewrite (U eq_refl); split; reflexivity ]).
  - destruct (lookup l_key lazy_meta k) as [e|] eqn:HL.
    + rewrite !(parse_lazy k _ e HE HL). rewrite (np_of_lazy k e HE HL) in U.
      unfold op_args. cbn [length obind].
      destruct x; try (exfalso; eapply Hx; reflexivity);
        (destruct (can_accept_unary (l_np e));
         [ left; reflexivity | right; rewrite (U eq_refl); split; reflexivity ]).
    + destruct (lookup d_key data_table k) as [e|] eqn:HD; [|discriminate].
      rewrite !(parse_data k _ e HE HL HD). rewrite (np_of_data k e HE HL HD) in U.
      unfold parse_args. cbn [length omapM].
      destruct x; try (exfalso; eapply Hx; reflexivity);
        (destruct (can_accept_unary (d_np e));
         [ left; destruct (is_valid_len (d_np e) 1); [|reflexivity];
           match goal with |- context [parse ?v] => destruct (parse v); reflexivity end
         | right; rewrite (U eq_refl); split; reflexivity ]).
Qed.

(** hence {op: x} evaluates exactly like {op: [x]} (identical value, error-ness and log lines) *)
Definition msame (a b : M value) : Prop :=
  a = b \/ (is_err (snd a) = true /\ is_err (snd b) = true).

Lemma sugar_eval k o x n d :
  name_of k = Some o -> (forall l, x <> Arr l) ->
  msame (apply_fuel n (Obj [(k, x)]) d) (apply_fuel n (Obj [(k, Arr [x])]) d).
Proof.
  intros H Hx. unfold apply_fuel. destruct (sugar_parse k o x H Hx) as [-> | [E1 E2]].
  - left. reflexivity.
  - right. destruct (parse (Obj [(k, x)])); try discriminate.
    destruct (parse (Obj [(k, Arr [x])])); try discriminate. split; reflexivity.
Qed.
