(** * C04: the substitution law on the reference semantics.  Replacing every operand of an
    eager, data-independent operator by a reference to its precomputed value changes neither
    the result nor the lines logged. *)
From Coq Require Import List ZArith NArith Bool Lia.
From JL Require Import Base.Json Base.Lits Base.F64 Base.Str Base.Monad.
From JL Require Import Spec.Specs Spec.OpSpecs Spec.RefEval.
From JL Require Import Proofs.MonadLaws Proofs.ArrayFacts.
Import ListNotations.
Local Open Scope m_scope.

(** {"var": [i]} *)
Definition ref_operand (i : nat) : value := Obj [(s_var, Arr [Num (PosInt (N.of_nat i))])].
Definition refs_from (k n : nat) : list value := map ref_operand (seq k n).
Definition refs (n : nat) : list value := refs_from 0 n.

(** operators whose meaning does not consult the data *)
Definition data_free (o : opname) : bool :=
  negb (is_lazy o) && match o with OVar | OMissing | OMissingSome => false | _ => true end.

Lemma refs_length n : length (refs n) = n.
Proof. unfold refs, refs_from. rewrite map_length, seq_length. reflexivity. Qed.

Lemma name_of_var : name_of s_var = Some OVar.
Proof. vm_compute. reflexivity. Qed.

Lemma as_i64_small (i : nat) : (Z.of_nat i < 2 ^ 63)%Z -> as_i64 (PosInt (N.of_nat i)) = Some (Z.of_nat i).
Proof.
  intros H. unfold as_i64.
  assert (E : (Z.of_N (N.of_nat i) = Z.of_nat i)%Z) by lia.
  rewrite E. change (2 ^ 63)%Z with two63 in H.
  destruct (Z.ltb_spec (Z.of_nat i) two63) as [_|L]; [reflexivity | lia].
Qed.

Lemma index_spec_nth {A} (l : list A) (i : nat) : (i < length l)%nat -> index_spec l (Z.of_nat i) = nth_error l i.
Proof.
  intros H. unfold index_spec.
  destruct (0 <=? Z.of_nat i)%Z eqn:E0; [|apply Z.leb_gt in E0; lia].
  destruct ((0 <=? Z.of_nat i)%Z && (Z.of_nat i <? Z.of_nat (length l))%Z) eqn:E1.
  - rewrite Nat2Z.id. reflexivity.
  - apply andb_false_iff in E1 as [E1|E1]; [congruence|]. apply Z.ltb_ge in E1. lia.
Qed.

Lemma ref_operand_eval vs i v :
  nth_error vs i = Some v -> (Z.of_nat (length vs) < 2 ^ 63)%Z ->
  ref_eval (ref_operand i) (Arr vs) = ret v.
Proof.
  intros Hn Hlen.
  assert (Hi : (i < length vs)%nat) by (apply nth_error_Some; congruence).
  unfold ref_operand. cbn [ref_eval]. rewrite name_of_var. cbn [length documented is_lazy].
  change (documented OVar 1) with true. cbv iota.
  cbn [mapM ref_eval]. rewrite !bind_ret_l. cbn [eager_spec var_spec lookup_spec].
  rewrite as_i64_small by lia. cbn [obind]. rewrite index_spec_nth by exact Hi. rewrite Hn. reflexivity.
Qed.

Lemma refs_from_eval vs k n :
  (k + n <= length vs)%nat -> (Z.of_nat (length vs) < 2 ^ 63)%Z ->
  mapM (fun a => ref_eval a (Arr vs)) (refs_from k n) = ret (firstn n (skipn k vs)).
Proof.
  revert k. induction n as [|n IH]; intros k Hk Hlen; [reflexivity|].
  unfold refs_from. cbn [seq map mapM]. fold (refs_from (S k) n).
  destruct (nth_error vs k) as [v|] eqn:Hn; [|apply nth_error_None in Hn; lia].
  rewrite (ref_operand_eval vs k v Hn Hlen), bind_ret_l, (IH (S k)) by lia. rewrite bind_ret_l.
  f_equal. clear IH.
  revert k Hk Hn. induction vs as [|x xs IHv]; intros k Hk Hn; [destruct k; discriminate Hn|].
  destruct k as [|k].
  - cbn in Hn. injection Hn as ->. reflexivity.
  - cbn [skipn]. cbn [nth_error] in Hn. cbn [length] in Hk, Hlen. apply IHv; [lia | lia | exact Hn].
Qed.

Lemma refs_eval vs : (Z.of_nat (length vs) < 2 ^ 63)%Z ->
  mapM (fun a => ref_eval a (Arr vs)) (refs (length vs)) = ret vs.
Proof.
  intros H. unfold refs. rewrite refs_from_eval by (try lia; exact H). cbn [skipn]. rewrite firstn_all. reflexivity.
Qed.

Lemma eager_data_free o d d' vs : data_free o = true -> eager_spec o d vs = eager_spec o d' vs.
Proof. destruct o; cbn; intros H; try discriminate H; reflexivity. Qed.

Theorem substitution_law o k args d logs vs :
  name_of k = Some o -> data_free o = true -> documented o (length args) = true ->
  mapM (fun a => ref_eval a d) args = (logs, Ok vs) ->
  (Z.of_nat (length vs) < 2 ^ 63)%Z ->
  ref_eval (Obj [(k, Arr args)]) d = tapp logs (ref_eval (Obj [(k, Arr (refs (length args)))]) (Arr vs)).
Proof.
  intros Hk Hfree Hdoc Hm Hlen.
  assert (Hlazy : is_lazy o = false).
  { unfold data_free in Hfree. apply andb_true_iff in Hfree as [H _]. apply negb_true_iff in H. exact H. }
  pose proof (mapM_length _ _ _ _ Hm) as Hl.
  cbn [ref_eval]. rewrite Hk, refs_length, Hdoc, Hlazy, Hm, bind_ok.
  rewrite <- Hl, (refs_eval vs Hlen), bind_ret_l.
  rewrite (eager_data_free o d (Arr vs) vs Hfree). reflexivity.
Qed.

(** the same law for the model of the implementation, through the master refinement *)
From JL Require Import Model.Eval Proofs.Meq.

Lemma meqA_sym {A} (a b : M A) : meqA a b -> meqA b a.
Proof.
  unfold meqA. destruct (snd a), (snd b); try contradiction; try exact (fun H => H).
  intros [-> ->]. split; reflexivity.
Qed.

Lemma meqA_trans {A} (a b c : M A) : meqA a b -> meqA b c -> meqA a c.
Proof.
  unfold meqA. destruct (snd a), (snd b), (snd c); try contradiction; try (intros; exact I).
  intros [-> ->] [-> ->]. split; reflexivity.
Qed.

Section ModelSubst.
  Hypothesis refines : forall r d, meq (apply r d) (ref_eval r d).

  Theorem substitution_law_model o k args d logs vs :
    name_of k = Some o -> data_free o = true -> documented o (length args) = true ->
    mapM (fun a => ref_eval a d) args = (logs, Ok vs) ->
    (Z.of_nat (length vs) < 2 ^ 63)%Z ->
    meq (apply (Obj [(k, Arr args)]) d)
        (tapp logs (apply (Obj [(k, Arr (refs (length args)))]) (Arr vs))).
  Proof.
    intros Hk Hf Hd Hm Hl. apply meq_is_meqA.
    eapply meqA_trans; [apply meq_is_meqA, refines|].
    rewrite (substitution_law o k args d logs vs Hk Hf Hd Hm Hl).
    apply meqA_tapp, meqA_sym, meq_is_meqA, refines.
  Qed.
End ModelSubst.
