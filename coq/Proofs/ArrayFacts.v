(** * Consequences of the higher-order specifications (C13 / C14). *)
From Coq Require Import List Bool Arith Lia.
From JL Require Import Base.Json Base.Monad Spec.Specs Spec.OpSpecs Proofs.MonadLaws.
Import ListNotations.
Local Open Scope m_scope.

Lemma mapM_length {A B} (f : A -> M B) xs t ys : mapM f xs = (t, Ok ys) -> length ys = length xs.
Proof.
  revert t ys. induction xs as [|x r IH]; intros t ys; cbn [mapM].
  - intros [= <- <-]. reflexivity.
  - destruct (f x) as [t1 [y|e| |]]; try (rewrite ?bind_err, ?bind_panic, ?bind_fuel; discriminate).
    rewrite bind_ok. destruct (mapM f r) as [t2 [ys'|e| |]] eqn:Er; unfold tapp; simpl; try discriminate.
    intros [= <- <-]. simpl. f_equal. eapply IH. reflexivity.
Qed.

(** subsequence: elements kept in order, unchanged *)
Inductive subseq {A} : list A -> list A -> Prop :=
| sub_nil : subseq [] []
| sub_keep x l l' : subseq l l' -> subseq (x :: l) (x :: l')
| sub_drop x l l' : subseq l l' -> subseq l (x :: l').

Lemma filterM_subseq (p : value -> M bool) xs t ys : filterM p xs = (t, Ok ys) -> subseq ys xs.
Proof.
  revert t ys. induction xs as [|x r IH]; intros t ys; cbn [filterM].
  - intros [= <- <-]. constructor.
  - destruct (p x) as [t1 [k|e| |]]; try (rewrite ?bind_err, ?bind_panic, ?bind_fuel; discriminate).
    rewrite bind_ok. destruct (filterM p r) as [t2 [ys'|e| |]] eqn:Er; unfold tapp; simpl; try discriminate.
    intros [= <- <-]. destruct k; [apply sub_keep | apply sub_drop]; eapply IH; reflexivity.
Qed.

(** filterM keeps exactly the elements whose test succeeded with true *)
Lemma filterM_pure (q : value -> bool) xs : filterM (fun x => ret (q x)) xs = ret (filter q xs).
Proof.
  induction xs as [|x r IH]; [reflexivity|]. cbn [filterM filter]. rewrite bind_ret_l, IH, bind_ret_l.
  destruct (q x); reflexivity.
Qed.

Section Scoping.
  Variable ev : value -> value -> M value.
  Variable chk : value -> outcome unit.

  (** outer data reaches map / filter / reduce only through the collection (and the initial value) *)
  Lemma map_scoping d d' c e : ev c d = ev c d' -> map_spec ev chk d c e = map_spec ev chk d' c e.
  Proof. intros H. unfold map_spec. rewrite H. reflexivity. Qed.
  Lemma filter_scoping d d' c e : ev c d = ev c d' -> filter_spec ev chk d c e = filter_spec ev chk d' c e.
  Proof. intros H. unfold filter_spec. rewrite H. reflexivity. Qed.
  Lemma reduce_scoping d d' c e i : ev c d = ev c d' -> ev i d = ev i d' ->
    reduce_spec ev chk d c e i = reduce_spec ev chk d' c e i.
  Proof. intros H1 H2. unfold reduce_spec. rewrite H1, H2. reflexivity. Qed.

  (** a null collection is the empty collection *)
  Lemma map_null d c e t : ev c d = (t, Ok Null) -> map_spec ev chk d c e = (do _u <- (t, chk e); ret (Arr [])).
  Proof.
    intros H. unfold map_spec. rewrite H, bind_ok. cbn [coll_spec]. rewrite bind_lift_ok.
    unfold lift, tapp. destruct (chk e); simpl; rewrite ?app_nil_r; reflexivity.
  Qed.

  (** none is the negation of some, with the same errors and log lines *)
  Lemma none_negates_some d c p t b :
    quant_spec ev chk false d c p = (t, Ok (Bool b)) -> none_spec ev chk d c p = (t, Ok (Bool (negb b))).
  Proof. intros H. unfold none_spec. rewrite H, bind_ok. unfold tapp, ret; simpl. rewrite app_nil_r. reflexivity. Qed.

  Lemma none_fails_with_some d c p t e :
    quant_spec ev chk false d c p = (t, Err e) -> none_spec ev chk d c p = (t, Err e).
  Proof. intros H. unfold none_spec. rewrite H. reflexivity. Qed.

  (** an empty or null collection makes all and some false *)
  Lemma quant_empty is_all d p : quant_spec ev chk is_all d (Arr []) p = ret (Bool false)
                                 /\ quant_spec ev chk is_all d Null p = ret (Bool false)
                                 /\ quant_spec ev chk is_all d (Str []) p = ret (Bool false).
  Proof. repeat split; reflexivity. Qed.

  (** short circuit, as independence from what follows the deciding element (literal arrays) *)
  Lemma forallM_stops (q : value -> M bool) xs x ys ys' t :
    forallM q xs = (t, Ok true) -> (exists t', q x = (t', Ok false)) ->
    forallM q (xs ++ x :: ys) = forallM q (xs ++ x :: ys').
  Proof.
    revert t. induction xs as [|y r IH]; intros t H [t' Hx].
    - cbn [app forallM]. rewrite Hx, !bind_ok. reflexivity.
    - cbn [app forallM] in *. destruct (q y) as [t1 [b|e| |]]; try discriminate.
      rewrite bind_ok in H. rewrite !bind_ok. destruct b.
      + destruct (forallM q r) as [t2 o2] eqn:Er. unfold tapp in H; simpl in H. injection H as _ ->.
        f_equal. eapply IH; [reflexivity | eauto].
      + reflexivity.
  Qed.

  Lemma existsM_stops (q : value -> M bool) xs x ys ys' t :
    existsM q xs = (t, Ok false) -> (exists t', q x = (t', Ok true)) ->
    existsM q (xs ++ x :: ys) = existsM q (xs ++ x :: ys').
  Proof.
    revert t. induction xs as [|y r IH]; intros t H [t' Hx].
    - cbn [app existsM]. rewrite Hx, !bind_ok. reflexivity.
    - cbn [app existsM] in *. destruct (q y) as [t1 [b|e| |]]; try discriminate.
      rewrite bind_ok in H. rewrite !bind_ok. destruct b.
      + reflexivity.
      + destruct (existsM q r) as [t2 o2] eqn:Er. unfold tapp in H; simpl in H. injection H as _ ->.
        f_equal. eapply IH; [reflexivity | eauto].
  Qed.
End Scoping.
