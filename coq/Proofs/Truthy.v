(** * C06: the model's truthiness is the specification's table. *)
From Coq Require Import List Bool.
From JL Require Import Base.Json Base.F64 Base.Monad Model.Ops Spec.Specs.
Import ListNotations.

Lemma truthy_eq (v : value) : truthy v = truthy_spec v.
Proof.
  destruct v as [|b|n|s|l|l]; simpl; try reflexivity.
  all: try (destruct b; reflexivity).
  all: try (destruct (f64_eqb (as_f64 n) f64_zero); reflexivity).
  all: try (destruct s; reflexivity).
  all: try (destruct l; reflexivity).
Qed.

(** the table itself, spelled out *)
Lemma truthy_table (v : value) :
  truthy_spec v = false <->
  (v = Bool false \/ v = Null \/ v = Str [] \/ v = Arr [] \/
   exists n, v = Num n /\ f64_eqb (as_f64 n) f64_zero = true).
Proof.
  split.
  - destruct v as [|b|n|s|l|l]; simpl; intros H; try discriminate; auto.
    + destruct b; [discriminate | auto].
    + right; right; right; right. exists n. split; [reflexivity|]. destruct (f64_eqb _ _); [reflexivity|discriminate].
    + destruct s; [auto | discriminate].
    + destruct l; [auto | discriminate].
  - intros [->|[->|[->|[->|[n [-> H]]]]]]; simpl; try reflexivity. rewrite H. reflexivity.
Qed.

Lemma op_not_negates items : op_not items = omap (fun v => match v with Bool b => Bool (negb b) | x => x end) (op_double_not items).
Proof. unfold op_not, op_double_not, omap. destruct (idx items 0); reflexivity. Qed.
