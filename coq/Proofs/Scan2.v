(** * parseFloat: the scanner returns the value of the LONGEST prefix that is a StrDecimalLiteral. *)
From Coq Require Import List ZArith NArith Bool Arith Lia.
From Coq Require Import Floats.SpecFloat.
From JL Require Import Base.Json Base.Lits Base.F64 Base.Str Base.Dec2Flt Spec.Specs Proofs.Scan.
Import ListNotations.
Local Open Scope N_scope.

(** ** the optional sign *)
Lemma exp_sign_cases r :
  (exists r', r = 43 :: r' /\ exp_sign r = (false, 1%nat, r')) \/
  (exists r', r = 45 :: r' /\ exp_sign r = (true, 1%nat, r')) \/
  (exp_sign r = (false, O, r) /\ match r with [] => True | c :: _ => c <> 43 /\ c <> 45 end).
Proof.
  unfold exp_sign. destruct r as [|c r']; [right; right; split; [reflexivity | exact I]|].
  destruct c as [|p]; [right; right; split; [reflexivity | split; discriminate]|].
  do 6 (try destruct p as [p|p|]);
    first [ left; eexists; split; reflexivity
          | right; left; eexists; split; reflexivity
          | right; right; split; [reflexivity | split; discriminate] ].
Qed.

Lemma digit_head_no_sign c r : is_digit c = true -> exp_sign (c :: r) = (false, O, c :: r).
Proof.
  intros H. destruct (exp_sign_cases (c :: r)) as [[r' [E _]]|[[r' [E _]]|[E _]]]; [| |exact E].
  - injection E as -> _. discriminate H.
  - injection E as -> _. discriminate H.
Qed.

(** scanning the exponent of [r ++ rest] when the exponent of [r] was complete and consumed [r] entirely *)
Lemma scan_exp_app r rest eneg sl d D3 :
  scan_exp r = (eneg, sl, d :: D3, []) ->
  scan_exp (r ++ rest) = (eneg, sl, (d :: D3) ++ take_while is_digit rest, drop_while is_digit rest).
Proof.
  unfold scan_exp. intros H.
  destruct (exp_sign_cases r) as [[r' [-> E]]|[[r' [-> E]]|[E Hh]]]; rewrite E in H.
  - cbn [app]. change (exp_sign (43 :: r' ++ rest)) with (false, 1%nat, r' ++ rest).
    injection H as <- <- Ht Hd. pose proof (take_drop is_digit r') as TD. rewrite Ht, Hd, app_nil_r in TD. subst r'.
    rewrite take_while_app_all, drop_while_app_all by (rewrite <- Ht; apply take_while_all). reflexivity.
  - cbn [app]. change (exp_sign (45 :: r' ++ rest)) with (true, 1%nat, r' ++ rest).
    injection H as <- <- Ht Hd. pose proof (take_drop is_digit r') as TD. rewrite Ht, Hd, app_nil_r in TD. subst r'.
    rewrite take_while_app_all, drop_while_app_all by (rewrite <- Ht; apply take_while_all). reflexivity.
  - injection H as <- <- Ht Hd. pose proof (take_drop is_digit r) as TD. rewrite Ht, Hd, app_nil_r in TD. subst r.
    assert (Hall : forallb is_digit (d :: D3) = true) by (rewrite <- Ht; apply take_while_all).
    cbn [app]. rewrite digit_head_no_sign by (cbn in Hall; apply andb_true_iff in Hall; tauto).
    change (d :: D3 ++ rest) with ((d :: D3) ++ rest).
    rewrite take_while_app_all, drop_while_app_all by exact Hall. reflexivity.
Qed.

Definition not_both_empty (D1 D2 : str) : Prop := match D1, D2 with [], [] => False | _, _ => True end.

(** ** monotonicity of the tail *)
Lemma tail_some_ge D1 D2 base R :
  not_both_empty D1 D2 ->
  exists l, scan_tail D1 D2 base R = Some l /\ (base <= dl_len l)%nat.
Proof.
  intros H. unfold scan_tail. unfold not_both_empty in H.
  destruct D1, D2; try contradiction.
  all: destruct R as [|c r]; [eexists; split; [reflexivity | cbn; lia]|].
  all: destruct (is_e c); [|eexists; split; [reflexivity | cbn; lia]].
  all: destruct (scan_exp r) as [[[eneg sl] eds] rest]; destruct eds; eexists; split; try reflexivity; cbn; lia.
Qed.

Lemma tail_mono D1 D2 base R2 rest l :
  not_both_empty D1 D2 ->
  scan_tail D1 D2 base R2 = Some l -> dl_len l = (base + length R2)%nat ->
  exists l', scan_tail D1 D2 base (R2 ++ rest) = Some l' /\ (dl_len l <= dl_len l')%nat.
Proof.
  intros Hne Hs Hl. assert (Hne' := Hne). unfold not_both_empty in Hne'.
  destruct R2 as [|c r].
  - cbn [app]. destruct (tail_some_ge D1 D2 base rest Hne) as [l' [E G]]. exists l'. split; [exact E|].
    cbn [length] in Hl. lia.
  - assert (Hs' : scan_tail D1 D2 base (c :: r) =
                  if is_e c then
                    let '(eneg, sl, eds, _) := scan_exp r in
                    match eds with
                    | [] => Some (mk_lit D1 D2 None base)
                    | _ => Some (mk_lit D1 D2 (Some (eneg, eds)) (base + 1 + sl + length eds)%nat)
                    end
                  else Some (mk_lit D1 D2 None base)).
    { unfold scan_tail. destruct D1, D2; try contradiction; reflexivity. }
    assert (Hs'' : forall X, scan_tail D1 D2 base (c :: X) =
                  if is_e c then
                    let '(eneg, sl, eds, _) := scan_exp X in
                    match eds with
                    | [] => Some (mk_lit D1 D2 None base)
                    | _ => Some (mk_lit D1 D2 (Some (eneg, eds)) (base + 1 + sl + length eds)%nat)
                    end
                  else Some (mk_lit D1 D2 None base)).
    { intros X. unfold scan_tail. destruct D1, D2; try contradiction; reflexivity. }
    rewrite Hs' in Hs. cbn [app]. rewrite Hs''.
    destruct (is_e c).
    + destruct (scan_exp r) as [[[eneg sl] eds] R3] eqn:E.
      pose proof (scan_exp_len r eneg sl eds R3 E) as L.
      destruct eds as [|d D3].
      * injection Hs as <-. cbn [mk_lit dl_len length] in Hl. lia.
      * injection Hs as <-. cbn [mk_lit dl_len length] in Hl.
        assert (R3 = []) by (destruct R3; [reflexivity | cbn [length] in *; lia]). subst R3.
        rewrite (scan_exp_app r rest eneg sl d D3 E).
        eexists. split; [reflexivity|]. cbn [mk_lit dl_len app length]. rewrite app_length. lia.
    + injection Hs as <-. cbn [mk_lit dl_len length] in Hl. lia.
Qed.

Ltac len := repeat (progress (rewrite ?app_length in *; cbn [length app] in *)); lia.

(** ** monotonicity of the whole unsigned scan *)
Lemma body_some_ge D1 R : D1 <> [] -> exists l, scan_body D1 R = Some l /\ (length D1 <= dl_len l)%nat.
Proof.
  intros Hne. assert (Hnn : forall D2 : str, not_both_empty D1 D2)
    by (intros D2; unfold not_both_empty; destruct D1; [contradiction | exact I]).
  unfold scan_body.
  assert (K : forall (D2 : str) base R', (length D1 <= base)%nat ->
              exists l, scan_tail D1 D2 base R' = Some l /\ (length D1 <= dl_len l)%nat).
  { intros D2 base R' Hb. destruct (tail_some_ge D1 D2 base R' (Hnn D2)) as [l [E G]]. exists l. split; [exact E | lia]. }
  destruct R as [|c r]; [apply K; lia|].
  destruct c as [|p]; [apply K; lia|].
  do 6 (try destruct p as [p|p|]); try (apply K; lia).
  destruct D1 as [|d D1']; [contradiction|]. destruct (take_while is_digit r); apply K; cbn [length]; lia.
Qed.

Lemma take_while_app_stop {A} (p : A -> bool) a c r : forallb p a = true -> p c = false ->
  take_while p (a ++ c :: r) = a /\ drop_while p (a ++ c :: r) = c :: r.
Proof.
  intros Ha Hc. rewrite take_while_app_all, drop_while_app_all by exact Ha.
  cbn. rewrite Hc. rewrite app_nil_r. split; reflexivity.
Qed.

Lemma scan_mono w rest l :
  scan_unsigned_decimal w = Some l -> dl_len l = length w ->
  exists l', scan_unsigned_decimal (w ++ rest) = Some l' /\ (length w <= dl_len l')%nat.
Proof.
  unfold scan_unsigned_decimal. intros Hs Hl.
  pose proof (take_drop is_digit w) as TD. pose proof (take_while_all is_digit w) as HD.
  pose proof (drop_while_head is_digit w) as HR.
  set (D1 := take_while is_digit w) in *. set (R1 := drop_while is_digit w) in *. clearbody D1 R1. subst w.
  destruct R1 as [|c r].
  - (* all digits *)
    rewrite app_nil_r in *. rewrite take_while_app_all, drop_while_app_all by exact HD.
    assert (Hne : D1 <> []) by (intros ->; discriminate Hs).
    destruct (body_some_ge (D1 ++ take_while is_digit rest) (drop_while is_digit rest)) as [l' [E G]].
    { destruct D1; [contradiction | discriminate]. }
    exists l'. split; [exact E|]. len.
  - replace ((D1 ++ c :: r) ++ rest) with (D1 ++ c :: (r ++ rest)) by (rewrite <- app_assoc; reflexivity).
    destruct (take_while_app_stop is_digit D1 c (r ++ rest) HD HR) as [-> ->].
    rewrite app_length in Hl. cbn [length] in Hl.
    destruct (N.eq_dec c 46) as [->|Hnd].
    + (* a dot *)
      unfold scan_body in Hs |- *.
      pose proof (take_drop is_digit r) as TDr. pose proof (take_while_all is_digit r) as HD2.
      pose proof (drop_while_head is_digit r) as HR2.
      set (D2 := take_while is_digit r) in *. set (R2 := drop_while is_digit r) in *. clearbody D2 R2. subst r.
      destruct D1 as [|d D1'], D2 as [|f F]; try discriminate Hs.
      * (* .F *)
        destruct R2 as [|c2 r2].
        -- rewrite app_nil_r in *. rewrite take_while_app_all, drop_while_app_all by exact HD2. cbn [app].
           destruct (tail_some_ge [] (f :: F ++ take_while is_digit rest)
                       (length (@nil N) + S (length (f :: F ++ take_while is_digit rest))) (drop_while is_digit rest) I) as [l' [E G]].
           exists l'. split; [exact E|]. len.
        -- replace (((f :: F) ++ c2 :: r2) ++ rest) with ((f :: F) ++ c2 :: (r2 ++ rest)) by (rewrite <- app_assoc; reflexivity).
           destruct (take_while_app_stop is_digit (f :: F) c2 (r2 ++ rest) HD2 HR2) as [-> ->].
           destruct (tail_mono [] (f :: F) (length (@nil N) + S (length (f :: F))) (c2 :: r2) rest l I Hs) as [l' [E G]].
           { len. }
           exists l'. split; [exact E|]. len.
      * (* D. *)
        destruct R2 as [|c2 r2].
        -- cbn [app] in *. destruct (take_while is_digit rest) as [|g G'] eqn:ET.
           ++ destruct (tail_some_ge (d :: D1') [] (length (d :: D1') + S (length (@nil N))) (drop_while is_digit rest) I) as [l' [E G]].
              exists l'. split; [exact E|]. len.
           ++ destruct (tail_some_ge (d :: D1') (g :: G') (length (d :: D1') + S (length (g :: G'))) (drop_while is_digit rest) I) as [l' [E G]].
              exists l'. split; [exact E|]. len.
        -- cbn [app]. cbn [app] in Hs, HR2.
           assert (Et : take_while is_digit (c2 :: r2 ++ rest) = [] /\ drop_while is_digit (c2 :: r2 ++ rest) = c2 :: r2 ++ rest).
           { cbn. rewrite HR2. split; reflexivity. }
           destruct Et as [-> ->].
           destruct (tail_mono (d :: D1') [] (length (d :: D1') + S (length (@nil N))) (c2 :: r2) rest l I Hs) as [l' [E G]].
           { len. }
           exists l'. split; [exact E|]. len.
      * (* D.F *)
        destruct R2 as [|c2 r2].
        -- rewrite app_nil_r in *. rewrite take_while_app_all, drop_while_app_all by exact HD2. cbn [app].
           destruct (tail_some_ge (d :: D1') (f :: F ++ take_while is_digit rest)
                       (length (d :: D1') + S (length (f :: F ++ take_while is_digit rest))) (drop_while is_digit rest) I) as [l' [E G]].
           exists l'. split; [exact E|]. len.
        -- replace (((f :: F) ++ c2 :: r2) ++ rest) with ((f :: F) ++ c2 :: (r2 ++ rest)) by (rewrite <- app_assoc; reflexivity).
           destruct (take_while_app_stop is_digit (f :: F) c2 (r2 ++ rest) HD2 HR2) as [-> ->].
           destruct (tail_mono (d :: D1') (f :: F) (length (d :: D1') + S (length (f :: F))) (c2 :: r2) rest l I Hs) as [l' [E G]].
           { len. }
           exists l'. split; [exact E|]. len.
    + (* no dot *)
      rewrite (scan_body_nodot D1 c r Hnd) in Hs. rewrite (scan_body_nodot D1 c (r ++ rest) Hnd).
      assert (Hne : not_both_empty D1 []).
      { unfold not_both_empty. destruct D1; [discriminate Hs | exact I]. }
      destruct (tail_mono D1 [] (length D1 + 0) (c :: r) rest l Hne Hs) as [l' [E G]].
      { len. }
      exists l'. split; [exact E|]. len.
Qed.

(** ** stability: scanning the consumed prefix gives the same literal *)
Lemma take_while_id {A} (p : A -> bool) a : forallb p a = true -> take_while p a = a /\ drop_while p a = [].
Proof.
  intros H. pose proof (take_while_app_all p a [] H) as T. pose proof (drop_while_app_all p a [] H) as Dw.
  rewrite app_nil_r in *. cbn in *. rewrite app_nil_r in T. split; assumption.
Qed.

Lemma firstn_app_exact {A} (a b : list A) k : firstn (length a + k) (a ++ b) = a ++ firstn k b.
Proof. rewrite firstn_app. replace (length a + k - length a)%nat with k by lia. rewrite firstn_all2 by lia. reflexivity. Qed.

Lemma scan_exp_firstn r eneg sl d D3 R3 :
  scan_exp r = (eneg, sl, d :: D3, R3) ->
  scan_exp (firstn (sl + length (d :: D3)) r) = (eneg, sl, d :: D3, []).
Proof.
  unfold scan_exp. intros H.
  destruct (exp_sign_cases r) as [[r' [-> E]]|[[r' [-> E]]|[E Hh]]]; rewrite E in H; injection H as <- <- Ht Hd.
  - pose proof (take_drop is_digit r') as TD. rewrite Ht, Hd in TD. subst r'.
    assert (Hall : forallb is_digit (d :: D3) = true) by (rewrite <- Ht; apply take_while_all).
    replace (1 + length (d :: D3))%nat with (S (length (d :: D3) + 0)) by lia.
    change (firstn (S (length (d :: D3) + 0)) (43 :: (d :: D3) ++ R3)) with (43 :: firstn (length (d :: D3) + 0) ((d :: D3) ++ R3)).
    rewrite firstn_app_exact. cbn [firstn]. rewrite app_nil_r.
    change (exp_sign (43 :: d :: D3)) with (false, 1%nat, d :: D3).
    destruct (take_while_id is_digit (d :: D3) Hall) as [-> ->]. reflexivity.
  - pose proof (take_drop is_digit r') as TD. rewrite Ht, Hd in TD. subst r'.
    assert (Hall : forallb is_digit (d :: D3) = true) by (rewrite <- Ht; apply take_while_all).
    replace (1 + length (d :: D3))%nat with (S (length (d :: D3) + 0)) by lia.
    change (firstn (S (length (d :: D3) + 0)) (45 :: (d :: D3) ++ R3)) with (45 :: firstn (length (d :: D3) + 0) ((d :: D3) ++ R3)).
    rewrite firstn_app_exact. cbn [firstn]. rewrite app_nil_r.
    change (exp_sign (45 :: d :: D3)) with (true, 1%nat, d :: D3).
    destruct (take_while_id is_digit (d :: D3) Hall) as [-> ->]. reflexivity.
  - pose proof (take_drop is_digit r) as TD. rewrite Ht, Hd in TD. subst r.
    assert (Hall : forallb is_digit (d :: D3) = true) by (rewrite <- Ht; apply take_while_all).
    replace (0 + length (d :: D3))%nat with (length (d :: D3) + 0)%nat by lia.
    rewrite firstn_app_exact. cbn [firstn]. rewrite app_nil_r.
    rewrite digit_head_no_sign by (cbn in Hall; apply andb_true_iff in Hall; tauto).
    destruct (take_while_id is_digit (d :: D3) Hall) as [-> ->]. reflexivity.
Qed.

Lemma tail_unfold D1 D2 base R : not_both_empty D1 D2 ->
  scan_tail D1 D2 base R =
  match R with
  | c :: r =>
      if is_e c then
        let '(eneg, sl, eds, _) := scan_exp r in
        match eds with
        | [] => Some (mk_lit D1 D2 None base)
        | _ => Some (mk_lit D1 D2 (Some (eneg, eds)) (base + 1 + sl + length eds)%nat)
        end
      else Some (mk_lit D1 D2 None base)
  | [] => Some (mk_lit D1 D2 None base)
  end.
Proof. unfold not_both_empty, scan_tail. intros H. destruct D1, D2; try contradiction; reflexivity. Qed.

Lemma tail_stable D1 D2 base R2 l :
  not_both_empty D1 D2 -> scan_tail D1 D2 base R2 = Some l ->
  exists k, dl_len l = (base + k)%nat /\ (k <= length R2)%nat /\
            scan_tail D1 D2 base (firstn k R2) = Some l /\
            match firstn k R2 with [] => True | c :: _ => is_e c = true end.
Proof.
  intros Hne Hs. rewrite (tail_unfold D1 D2 base R2 Hne) in Hs.
  destruct R2 as [|c r].
  - injection Hs as <-. exists 0%nat. cbn [firstn]. rewrite (tail_unfold _ _ _ _ Hne).
    repeat split; try reflexivity; cbn; lia.
  - destruct (is_e c) eqn:Ec.
    + destruct (scan_exp r) as [[[eneg sl] eds] R3] eqn:E.
      pose proof (scan_exp_len r eneg sl eds R3 E) as L.
      destruct eds as [|d D3].
      * injection Hs as <-. exists 0%nat. cbn [firstn]. rewrite (tail_unfold _ _ _ _ Hne).
        repeat split; try reflexivity; cbn; lia.
      * injection Hs as <-. exists (S (sl + length (d :: D3))). cbn [firstn].
        rewrite (tail_unfold _ _ _ _ Hne), Ec, (scan_exp_firstn r eneg sl d D3 R3 E).
        repeat split; try reflexivity; try exact Ec; cbn [mk_lit dl_len length] in *; lia.
    + injection Hs as <-. exists 0%nat. cbn [firstn]. rewrite (tail_unfold _ _ _ _ Hne).
      repeat split; try reflexivity; cbn; lia.
Qed.

Lemma e_not_digit c : is_e c = true -> is_digit c = false /\ c <> 46.
Proof.
  unfold is_e, is_digit. intros H. apply orb_true_iff in H as [H|H]; apply N.eqb_eq in H; subst; split; try reflexivity; discriminate.
Qed.

Lemma scan_stable u l :
  scan_unsigned_decimal u = Some l ->
  (1 <= dl_len l <= length u)%nat /\ scan_unsigned_decimal (firstn (dl_len l) u) = Some l.
Proof.
  unfold scan_unsigned_decimal. intros Hs.
  pose proof (take_drop is_digit u) as TD. pose proof (take_while_all is_digit u) as HD.
  pose proof (drop_while_head is_digit u) as HR.
  set (D1 := take_while is_digit u) in *. set (R1 := drop_while is_digit u) in *. clearbody D1 R1. subst u.
  (* scanning D1 ++ X where X is empty or starts with a non-digit *)
  assert (Kscan : forall X, (match X with [] => True | c :: _ => is_digit c = false end) ->
                 take_while is_digit (D1 ++ X) = D1 /\ drop_while is_digit (D1 ++ X) = X).
  { intros X HX. rewrite take_while_app_all, drop_while_app_all by exact HD.
    destruct X as [|c r]; [cbn; rewrite app_nil_r; split; reflexivity|]. cbn. rewrite HX, app_nil_r. split; reflexivity. }
  destruct R1 as [|c r].
  - (* digits only *)
    rewrite app_nil_r in *. cbn [scan_body] in Hs.
    assert (Hne : not_both_empty D1 []) by (unfold not_both_empty; destruct D1; [discriminate Hs | exact I]).
    rewrite (tail_unfold _ _ _ _ Hne) in Hs. injection Hs as <-. cbn [mk_lit dl_len]. rewrite Nat.add_0_r.
    rewrite firstn_all. destruct (Kscan [] I) as [K1 K2]. rewrite app_nil_r in K1, K2. rewrite K1, K2.
    cbn [scan_body]. rewrite (tail_unfold _ _ _ _ Hne), Nat.add_0_r. split; [|reflexivity].
    destruct D1; [contradiction | cbn; lia].
  - destruct (N.eq_dec c 46) as [->|Hnd].
    + unfold scan_body in Hs.
      pose proof (take_drop is_digit r) as TDr. pose proof (take_while_all is_digit r) as HD2.
      pose proof (drop_while_head is_digit r) as HR2.
      set (D2 := take_while is_digit r) in *. set (R2 := drop_while is_digit r) in *. clearbody D2 R2. subst r.
      assert (Hne : not_both_empty D1 D2).
      { unfold not_both_empty. destruct D1, D2; try exact I. discriminate Hs. }
      assert (Hs' : scan_tail D1 D2 (length D1 + S (length D2)) R2 = Some l).
      { destruct D1, D2; exact Hs. }
      destruct (tail_stable D1 D2 _ R2 l Hne Hs') as [k [Hk [Hkl [Hst Hhead]]]].
      split; [rewrite Hk; len|].
      rewrite Hk.
      replace (length D1 + S (length D2) + k)%nat with (length D1 + (S (length D2 + k)))%nat by lia.
      rewrite firstn_app_exact. cbn [firstn]. rewrite firstn_app_exact.
      assert (HX : match firstn k R2 with [] => True | c :: _ => is_digit c = false end).
      { destruct (firstn k R2) as [|c2 r2]; [exact I | apply e_not_digit, Hhead]. }
      destruct (Kscan (46 :: D2 ++ firstn k R2) eq_refl) as [-> ->].
      unfold scan_body.
      assert (K2 : take_while is_digit (D2 ++ firstn k R2) = D2 /\ drop_while is_digit (D2 ++ firstn k R2) = firstn k R2).
      { rewrite take_while_app_all, drop_while_app_all by exact HD2.
        destruct (firstn k R2) as [|c2 r2]; [cbn; rewrite app_nil_r; split; reflexivity|].
        cbn. rewrite HX, app_nil_r. split; reflexivity. }
      destruct K2 as [-> ->].
      destruct D1, D2; exact Hst.
    + rewrite (scan_body_nodot D1 c r Hnd) in Hs.
      assert (Hne : not_both_empty D1 []) by (unfold not_both_empty; destruct D1; [discriminate Hs | exact I]).
      destruct (tail_stable D1 [] _ (c :: r) l Hne Hs) as [k [Hk [Hkl [Hst Hhead]]]].
      split; [rewrite Hk; destruct D1; [contradiction | len]|].
      rewrite Hk. replace (length D1 + 0 + k)%nat with (length D1 + k)%nat by lia.
      rewrite firstn_app_exact.
      assert (HX : match firstn k (c :: r) with [] => True | c' :: _ => is_digit c' = false end).
      { destruct (firstn k (c :: r)) as [|c2 r2]; [exact I | apply e_not_digit, Hhead]. }
      destruct (Kscan (firstn k (c :: r)) HX) as [-> ->].
      destruct (firstn k (c :: r)) as [|c2 r2] eqn:Ef.
      * cbn [scan_body]. exact Hst.
      * assert (c2 <> 46) by (apply e_not_digit, Hhead).
        rewrite (scan_body_nodot D1 c2 r2 H). exact Hst.
Qed.

(** ** after the sign: Infinity or an unsigned literal *)
Lemma starts_with_firstn p u n : starts_with p (firstn n u) = true -> starts_with p u = true.
Proof.
  revert u n. induction p as [|x p IH]; intros u n H; [reflexivity|].
  destruct u as [|y u]; [destruct n; discriminate H|]. destruct n as [|n]; [discriminate H|].
  cbn in *. apply andb_true_iff in H as [H1 H2]. rewrite H1. apply (IH u n H2).
Qed.

Lemma scan_head u l : scan_unsigned_decimal u = Some l ->
  match u with [] => False | c :: _ => is_digit c = true \/ c = 46 end.
Proof.
  unfold scan_unsigned_decimal. intros Hs. destruct u as [|c r]; [discriminate Hs|].
  destruct (is_digit c) eqn:Ed; [left; reflexivity|]. right.
  cbn [take_while drop_while] in Hs. rewrite Ed in Hs.
  destruct (N.eq_dec c 46) as [->|Hnd]; [reflexivity|].
  rewrite (scan_body_nodot [] c r Hnd) in Hs. discriminate Hs.
Qed.

Lemma after_sign_stable u mag len :
  after_sign_m u = Some (mag, len) ->
  (1 <= len <= length u)%nat /\ after_sign_m (firstn len u) = Some (mag, len).
Proof.
  unfold after_sign_m. destruct (starts_with s_Infinity u) eqn:SW.
  - intros [= <- <-]. destruct (starts_with_app _ _ SW) as [rest ->].
    change 8%nat with (length s_Infinity + 0)%nat. rewrite firstn_app_exact. cbn [firstn]. rewrite app_nil_r.
    split; [rewrite app_length; cbn; lia | reflexivity].
  - destruct (scan_unsigned_decimal u) as [l|] eqn:Es; [|discriminate]. intros [= <- <-].
    destruct (scan_stable u l Es) as [Hlen Hst]. split; [exact Hlen|].
    destruct (starts_with s_Infinity (firstn (dl_len l) u)) eqn:SW2.
    + apply starts_with_firstn in SW2. congruence.
    + rewrite Hst. reflexivity.
Qed.

Lemma after_sign_mono w rest mag :
  after_sign_m w = Some (mag, length w) ->
  exists mag' l', after_sign_m (w ++ rest) = Some (mag', l') /\ (length w <= l')%nat.
Proof.
  unfold after_sign_m. destruct (starts_with s_Infinity w) eqn:SW.
  - intros [= <- Hl]. destruct (starts_with_app _ _ SW) as [r ->].
    rewrite <- app_assoc, starts_with_refl_app. eexists _, _. split; [reflexivity|]. lia.
  - destruct (scan_unsigned_decimal w) as [l|] eqn:Es; [|discriminate]. intros [= <- Hl].
    destruct (scan_mono w rest l Es Hl) as [l' [E G]].
    assert (SW2 : starts_with s_Infinity (w ++ rest) = false).
    { pose proof (scan_head w l Es) as Hh. destruct w as [|c r]; [contradiction|].
      change (starts_with s_Infinity ((c :: r) ++ rest)) with ((73 =? c) && starts_with (tl s_Infinity) (r ++ rest)).
      destruct (N.eqb_spec 73 c) as [<-|]; [|reflexivity]. destruct Hh as [Hh|Hh]; discriminate Hh. }
    rewrite SW2, E. eexists _, _. split; [reflexivity | exact G].
Qed.

Lemma after_sign_head u mag len : after_sign_m u = Some (mag, len) ->
  match u with [] => False | c :: _ => c <> 45 /\ c <> 43 end.
Proof.
  unfold after_sign_m. destruct (starts_with s_Infinity u) eqn:SW.
  - intros _. destruct (starts_with_app _ _ SW) as [r ->]. cbn. split; discriminate.
  - destruct (scan_unsigned_decimal u) as [l|] eqn:Es; [|discriminate]. intros _.
    pose proof (scan_head u l Es) as Hh. destruct u as [|c r]; [contradiction|].
    destruct Hh as [Hh| ->]; [|split; discriminate].
    split; intros ->; discriminate Hh.
Qed.

(** ** with the sign *)
Definition lift_sign (neg : bool) (sl : nat) (o : option (f64 * nat)) : option (f64 * nat) :=
  match o with
  | None => None
  | Some (mag, len) => Some (if neg then SFopp mag else mag, (sl + len)%nat)
  end.

Lemma prefix_cases s :
  (exists u, s = 45 :: u /\ parse_decimal_prefix s = lift_sign true 1 (after_sign_m u)) \/
  (exists u, s = 43 :: u /\ parse_decimal_prefix s = lift_sign false 1 (after_sign_m u)) \/
  (parse_decimal_prefix s = lift_sign false 0 (after_sign_m s) /\
   match s with [] => True | c :: _ => c <> 45 /\ c <> 43 end).
Proof.
  unfold parse_decimal_prefix. fold after_sign_m. unfold lift_sign.
  destruct s as [|c u]; [right; right; split; [reflexivity | exact I]|].
  destruct c as [|p]; [right; right; split; [reflexivity | split; discriminate]|].
  do 6 (try destruct p as [p|p|]);
    first [ left; eexists; split; reflexivity
          | right; left; eexists; split; reflexivity
          | right; right; split; [reflexivity | split; discriminate] ].
Qed.

Lemma prefix_nosign s : (match s with [] => True | c :: _ => c <> 45 /\ c <> 43 end) ->
  parse_decimal_prefix s = lift_sign false 0 (after_sign_m s).
Proof.
  intros H. destruct (prefix_cases s) as [[u [-> _]]|[[u [-> _]]|[E _]]]; [| |exact E].
  - destruct H as [H _]. contradiction.
  - destruct H as [_ H]. contradiction.
Qed.

Lemma prefix_stable t v len :
  parse_decimal_prefix t = Some (v, len) ->
  (len <= length t)%nat /\ parse_decimal_prefix (firstn len t) = Some (v, len).
Proof.
  intros H.
  destruct (prefix_cases t) as [[u [-> E]]|[[u [-> E]]|[E Hh]]]; rewrite E in H; unfold lift_sign in H.
  - destruct (after_sign_m u) as [[mag l]|] eqn:A; [|discriminate]. injection H as <- <-.
    destruct (after_sign_stable u mag l A) as [Hl St]. split; [cbn [length]; lia|].
    cbn [Nat.add firstn].
    destruct (prefix_cases (45 :: firstn l u)) as [[u' [Eu ->]]|[[u' [Eu _]]|[_ [Hc _]]]];
      [injection Eu as <- | discriminate Eu | contradiction].
    rewrite St. reflexivity.
  - destruct (after_sign_m u) as [[mag l]|] eqn:A; [|discriminate]. injection H as <- <-.
    destruct (after_sign_stable u mag l A) as [Hl St]. split; [cbn [length]; lia|].
    cbn [Nat.add firstn].
    destruct (prefix_cases (43 :: firstn l u)) as [[u' [Eu _]]|[[u' [Eu ->]]|[_ [_ Hc]]]];
      [discriminate Eu | injection Eu as <- | contradiction].
    rewrite St. reflexivity.
  - destruct (after_sign_m t) as [[mag l]|] eqn:A; [|discriminate]. injection H as <- <-.
    destruct (after_sign_stable t mag l A) as [Hl St]. split; [lia|]. cbn [Nat.add].
    rewrite prefix_nosign; [rewrite St; reflexivity|].
    pose proof (after_sign_head _ _ _ St) as Hf. destruct (firstn l t); [contradiction | exact Hf].
Qed.

Lemma prefix_mono w rest v :
  parse_decimal_prefix w = Some (v, length w) ->
  exists v' l', parse_decimal_prefix (w ++ rest) = Some (v', l') /\ (length w <= l')%nat.
Proof.
  intros H.
  destruct (prefix_cases w) as [[u [-> E]]|[[u [-> E]]|[E Hh]]]; rewrite E in H; unfold lift_sign in H.
  - destruct (after_sign_m u) as [[mag l]|] eqn:A; [|discriminate]. injection H as <- Hl.
    assert (l = length u) by (cbn [length] in Hl; lia). subst l.
    destruct (after_sign_mono u rest mag A) as [mag' [l' [E' G]]].
    cbn [app]. destruct (prefix_cases (45 :: u ++ rest)) as [[u' [Eu ->]]|[[u' [Eu _]]|[_ [Hc _]]]];
      [injection Eu as <- | discriminate Eu | contradiction].
    rewrite E'. eexists _, _. split; [reflexivity | cbn [length]; lia].
  - destruct (after_sign_m u) as [[mag l]|] eqn:A; [|discriminate]. injection H as <- Hl.
    assert (l = length u) by (cbn [length] in Hl; lia). subst l.
    destruct (after_sign_mono u rest mag A) as [mag' [l' [E' G]]].
    cbn [app]. destruct (prefix_cases (43 :: u ++ rest)) as [[u' [Eu _]]|[[u' [Eu ->]]|[_ [_ Hc]]]];
      [discriminate Eu | injection Eu as <- | contradiction].
    rewrite E'. eexists _, _. split; [reflexivity | cbn [length]; lia].
  - destruct (after_sign_m w) as [[mag l]|] eqn:A; [|discriminate]. injection H as <- Hl.
    cbn [Nat.add] in Hl. subst l.
    destruct (after_sign_mono w rest mag A) as [mag' [l' [E' G]]].
    rewrite prefix_nosign; [rewrite E'; eexists _, _; split; [reflexivity | lia]|].
    pose proof (after_sign_head _ _ _ A) as Hw. destruct w as [|c r]; [contradiction | exact Hw].
Qed.

(** ** the longest prefix *)
Lemma firstn_decomp {A} (t : list A) m : (m <= length t)%nat -> t = firstn m t ++ skipn m t /\ length (firstn m t) = m.
Proof. intros H. split; [symmetry; apply firstn_skipn | apply firstn_length_le, H]. Qed.

Lemma longer_prefix_invalid t m :
  (m <= length t)%nat ->
  (forall v len, parse_decimal_prefix t = Some (v, len) -> (len < m)%nat) ->
  decimal_value (firstn m t) = None.
Proof.
  intros Hm Hlen. rewrite <- decimal_prefix_whole.
  destruct (firstn_decomp t m Hm) as [Et Lm].
  destruct (parse_decimal_prefix (firstn m t)) as [[v len]|] eqn:P; [|reflexivity].
  destruct (Nat.eqb_spec len (length (firstn m t))) as [->|]; [|reflexivity].
  exfalso. destruct (prefix_mono (firstn m t) (skipn m t) v P) as [v' [l' [E G]]].
  rewrite <- Et in E. specialize (Hlen v' l' E). lia.
Qed.

Lemma longest_prefix_found t v len n :
  parse_decimal_prefix t = Some (v, len) -> (len <= n <= length t)%nat ->
  longest_prefix_value n t = Some v.
Proof.
  intros P [Hl Hn]. destruct (prefix_stable t v len P) as [Hlt St].
  induction n as [|n IH].
  - assert (len = 0)%nat by lia. subst len. cbn [longest_prefix_value].
    rewrite <- decimal_prefix_whole, St. cbn [firstn length Nat.eqb]. reflexivity.
  - cbn [longest_prefix_value].
    destruct (Nat.eq_dec len (S n)) as [<-|Hneq].
    + rewrite <- decimal_prefix_whole, St. rewrite firstn_length_le by lia. rewrite Nat.eqb_refl. reflexivity.
    + rewrite (longer_prefix_invalid t (S n)) by (try lia; intros v' l' E; rewrite P in E; injection E as <- <-; lia).
      apply IH; lia.
Qed.

Lemma longest_prefix_none t n :
  parse_decimal_prefix t = None -> (n <= length t)%nat -> longest_prefix_value n t = None.
Proof.
  intros P Hn. induction n as [|n IH]; cbn [longest_prefix_value].
  - rewrite (longer_prefix_invalid t 0) by (try lia; intros v l E; rewrite P in E; discriminate E). reflexivity.
  - rewrite (longer_prefix_invalid t (S n)) by (try lia; intros v l E; rewrite P in E; discriminate E).
    apply IH. lia.
Qed.

(** C10: parse_float_string is the specification's parseFloat, for every string *)
Theorem parse_float_string_spec s : parse_float_string s = es_parse_float_str s.
Proof.
  unfold parse_float_string, es_parse_float_str. set (t := trim_start is_js_ws s).
  destruct (parse_decimal_prefix t) as [[v len]|] eqn:P.
  - symmetry. apply (longest_prefix_found t v len (length t) P).
    destruct (prefix_stable t v len P) as [Hl _]. lia.
  - symmetry. apply longest_prefix_none; [exact P | lia].
Qed.
