(** * C04 master refinement: the two-phase, fuel-driven model evaluator refines the single-pass
      reference semantics, given the correctness of each eager / data operator function. *)
From Coq Require Import List ZArith NArith Bool Arith Lia.
From JL Require Import Base.Json Base.Lits Base.Monad Model.Ops Model.Table Gen.OpTable Model.Eval.
From JL Require Import Spec.Specs Spec.OpSpecs Spec.RefEval.
From JL Require Import Proofs.MonadLaws Proofs.Meq Proofs.Tables Proofs.Parse Proofs.Literal Proofs.Arity
                       Proofs.Logic Proofs.Arrays Proofs.ArrayFacts.
Import ListNotations.
Local Open Scope m_scope.

(** ** depth facts *)
Definition list_depth (l : list value) : nat :=
  (fix go (l : list value) := match l with [] => O | x :: xs => Nat.max (vdepth x) (go xs) end) l.

Lemma list_depth_in a l : In a l -> vdepth a <= list_depth l.
Proof.
  induction l as [|x r IH]; intros H; [contradiction|]. cbn [list_depth].
  destruct H as [->|H]; [apply Nat.le_max_l|].
  etransitivity; [apply IH, H | apply Nat.le_max_r].
Qed.

Lemma vdepth_in a l : In a l -> vdepth a < vdepth (Arr l).
Proof.
  intros H. change (vdepth (Arr l)) with (S (list_depth l)).
  apply Nat.lt_succ_r, list_depth_in, H.
Qed.

Lemma vdepth_obj1 k v : vdepth (Obj [(k, v)]) = S (vdepth v).
Proof. cbn [vdepth]. rewrite Nat.max_0_r. reflexivity. Qed.

(** ** kinds *)
Lemma kind_of_name k o : name_of k = Some o ->
  exists np, kind_of k = Some (spec_kind o, np).
Proof.
  intros H. apply name_lookup_some in H.
  pose proof kinds_match as K. rewrite forallb_forall in K. specialize (K (k, o) H). simpl in K.
  destruct (kind_of k) as [[kd np]|]; [|discriminate]. exists np.
  destruct kd, (spec_kind o); try discriminate; reflexivity.
Qed.

Lemma lazy_kind o : is_lazy o = true <-> spec_kind o = KLazy.
Proof. destruct o; simpl; split; intros; try discriminate; reflexivity. Qed.

(** ** the lazy table dispatches each lazy name to its model function *)
Definition model_lazy (o : opname) (parsed : Type) (P : value -> outcome parsed) (E : parsed -> value -> M value)
  : value -> list value -> M value :=
  match o with
  | OIf | OTernary => if_ parsed P E
  | OOr => or_ parsed P E
  | OAnd => and_ parsed P E
  | OMap => map_ parsed P E
  | OFilter => filter_ parsed P E
  | OReduce => reduce_ parsed P E
  | OAll => all_ parsed P E
  | OSome => some_ parsed P E
  | ONone => none_ parsed P E
  | _ => fun _ _ => lift Panic
  end.

Lemma lazy_dispatch k o : In (k, o) op_names -> is_lazy o = true ->
  forall parsed P E, option_map l_fn (lookup l_key (lazy_table parsed P E) k) = Some (model_lazy o parsed P E).
Proof.
  intros H L parsed P E.
  repeat (destruct H as [H | H]; [ injection H as <- <-; first [discriminate L | reflexivity] | ]).
  contradiction.
Qed.

(** ** parse succeeds exactly on well-formed rules *)
Definition chkp (r : value) : outcome unit := omap (fun _ => tt) (parse r).

Lemma oeq_unit_bind {A} (a : outcome A) (b : outcome unit) (f : A -> outcome unit) (g : outcome unit) :
  oeq (omap (fun _ => tt) a) b -> (forall x, a = Ok x -> oeq (f x) g) ->
  oeq (obind a f) (obind b (fun _ => g)).
Proof.
  destruct a, b as [[]|e'| |]; simpl; try tauto. intros _ H. apply H. reflexivity.
Qed.

Lemma parse_wf_args args :
  (forall a, In a args -> oeq (chkp a) (wf_rule a)) ->
  oeq (omap (fun _ => tt) (omapM parse args))
      ((fix go (l : list value) : outcome unit :=
          match l with [] => Ok tt | x :: xs => doo _u <- wf_rule x; go xs end) args).
Proof.
  induction args as [|x r IH]; intros H; [reflexivity|].
  cbn [omapM]. pose proof (H x (or_introl eq_refl)) as Hx. unfold chkp in Hx.
  destruct (parse x) as [p|e| |], (wf_rule x) as [[]|e'| |]; simpl in Hx; try contradiction; simpl; auto.
  assert (IH' := IH (fun a Ha => H a (or_intror Ha))).
  destruct (omapM parse r), ((fix go (l : list value) : outcome unit :=
          match l with [] => Ok tt | x0 :: xs => doo _u <- wf_rule x0; go xs end) r) as [[]|e''| |];
    simpl in *; auto.
Qed.

Ltac ok := first [exact I | reflexivity].

Lemma parse_wf : forall n r, vdepth r < n -> oeq (chkp r) (wf_rule r).
Proof.
  induction n as [|n IH]; intros r Hd; [lia|].
  destruct (single_key r) as [[k val]|] eqn:S.
  2:{ unfold chkp. rewrite (parse_not_single r S).
      destruct r as [|b|nm|s|l|l]; try ok. destruct l as [|[k v] [|kv rest]]; try ok. discriminate. }
  destruct r as [|b|nm|s|l|l]; try discriminate. destruct l as [|[k' v'] [|kv rest]]; try discriminate.
  injection S as -> ->. rewrite vdepth_obj1 in Hd.
  destruct (name_of k) as [o|] eqn:N.
  2:{ unfold chkp. rewrite parse_literal by (simpl; rewrite N; reflexivity). cbn [wf_rule]. rewrite N. ok. }
  cbn [wf_rule]. rewrite N.
  apply name_lookup_some in N as Hin. pose proof (unary_sugar_consistent k o Hin) as U.
  destruct (kind_of_name k o N) as [np K]. unfold kind_of in K.
  assert (Hargs : forall args a, val = Arr args -> In a args -> oeq (chkp a) (wf_rule a)).
  { intros args a -> Ha. apply IH. pose proof (vdepth_in a args Ha). lia. }
  unfold chkp.
  destruct (lookup e_key eager_table k) as [e|] eqn:HE.
  - injection K as Ks _. assert (Lz : is_lazy o = false) by (destruct o; try reflexivity; discriminate Ks).
    rewrite (parse_eager k val e HE). rewrite (np_of_eager k e HE) in U. unfold parse_args.
    destruct val as [|b|nm|s|args|l].
    all: try (rewrite <- (documented_is_valid k o (e_np e) 1 N (np_of_eager k e HE)), Lz;
              destruct (can_accept_unary (e_np e));
              [ destruct (is_valid_len (e_np e) 1); [|ok]; reflexivity
              | rewrite (U eq_refl); ok ]).
    + rewrite <- (documented_is_valid k o (e_np e) (length args) N (np_of_eager k e HE)), Lz.
      destruct (is_valid_len (e_np e) (length args)); [|ok].
      pose proof (parse_wf_args args (fun a Ha => Hargs args a eq_refl Ha)) as PA.
      destruct (omapM parse args), ((fix go (l : list value) : outcome unit :=
          match l with [] => Ok tt | x :: xs => doo _u <- wf_rule x; go xs end) args) as [[]|e''| |];
        simpl in *; auto.
    + (* bare object operand: parsed recursively *)
      rewrite <- (documented_is_valid k o (e_np e) 1 N (np_of_eager k e HE)), Lz.
      destruct (can_accept_unary (e_np e)); [|rewrite (U eq_refl); ok].
      destruct (is_valid_len (e_np e) 1); [|ok].
      assert (Hl : oeq (chkp (Obj l)) (wf_rule (Obj l))) by (apply IH; lia).
      unfold chkp in Hl. destruct (parse (Obj l)), (wf_rule (Obj l)) as [[]|e''| |]; simpl in *; auto.
  - destruct (lookup l_key lazy_meta k) as [e|] eqn:HL.
    + injection K as Ks _. assert (Lz : is_lazy o = true) by (apply lazy_kind; symmetry; exact Ks).
      rewrite (parse_lazy k val e HE HL). rewrite (np_of_lazy k e HE HL) in U. unfold op_args. rewrite Lz.
      destruct val as [|b|nm|s|args|l]; cbn [obind].
      all: try (rewrite <- (documented_is_valid k o (l_np e) 1 N (np_of_lazy k e HE HL));
                destruct (can_accept_unary (l_np e)); cbn [obind length];
                [ destruct (is_valid_len (l_np e) 1); ok
                | rewrite (U eq_refl); ok ]).
      rewrite <- (documented_is_valid k o (l_np e) (length args) N (np_of_lazy k e HE HL)).
      destruct (is_valid_len (l_np e) (length args)); ok.
    + destruct (lookup d_key data_table k) as [e|] eqn:HD; [|discriminate].
      injection K as Ks _. assert (Lz : is_lazy o = false) by (destruct o; try reflexivity; discriminate Ks).
      rewrite (parse_data k val e HE HL HD). rewrite (np_of_data k e HE HL HD) in U. unfold parse_args.
      destruct val as [|b|nm|s|args|l].
      all: try (rewrite <- (documented_is_valid k o (d_np e) 1 N (np_of_data k e HE HL HD)), Lz;
                destruct (can_accept_unary (d_np e));
                [ destruct (is_valid_len (d_np e) 1); [|ok]; reflexivity
                | rewrite (U eq_refl); ok ]).
      * rewrite <- (documented_is_valid k o (d_np e) (length args) N (np_of_data k e HE HL HD)), Lz.
        destruct (is_valid_len (d_np e) (length args)); [|ok].
        pose proof (parse_wf_args args (fun a Ha => Hargs args a eq_refl Ha)) as PA.
        destruct (omapM parse args), ((fix go (l : list value) : outcome unit :=
            match l with [] => Ok tt | x :: xs => doo _u <- wf_rule x; go xs end) args) as [[]|e''| |];
          simpl in *; auto.
      * rewrite <- (documented_is_valid k o (d_np e) 1 N (np_of_data k e HE HL HD)), Lz.
        destruct (can_accept_unary (d_np e)); [|rewrite (U eq_refl); ok].
        destruct (is_valid_len (d_np e) 1); [|ok].
        assert (Hl : oeq (chkp (Obj l)) (wf_rule (Obj l))) by (apply IH; lia).
        unfold chkp in Hl. destruct (parse (Obj l)), (wf_rule (Obj l)) as [[]|e''| |]; simpl in *; auto.
Qed.

Lemma parse_ok_or_err r : (exists p, parse r = Ok p) \/ (exists e, parse r = Err e).
Proof.
  pose proof (parse_wf (S (vdepth r)) r (Nat.lt_succ_diag_r _)) as H. unfold chkp in H.
  destruct (parse r); simpl in H; eauto; destruct (wf_rule r); contradiction.
Qed.

(** a stronger bind rule: the continuation needs to be related only on values the first
    computation can actually produce *)
Lemma meqA_bind_strong {A B} (m1 m2 : M A) (f1 f2 : A -> M B) :
  meqA m1 m2 -> (forall v t, m1 = (t, Ok v) -> meqA (f1 v) (f2 v)) -> meqA (bind m1 f1) (bind m2 f2).
Proof.
  destruct m1 as [t1 [x|e| |]], m2 as [t2 [y|e'| |]]; intros H1 H2; try (exact H1 || contradiction H1).
  destruct H1 as [Hx Ht]. cbn in Hx, Ht. subst. rewrite !bind_ok. apply meqA_tapp. eapply H2. reflexivity.
Qed.

Lemma bind_mapM1 {A B C} (f : A -> M B) (x : A) (g : list B -> M C) :
  (do vs <- mapM f [x]; g vs) = (do v <- f x; g [v]).
Proof.
  cbn [mapM]. rewrite !bind_assoc. apply bind_ext. intros v. rewrite bind_ret_l, bind_ret_l. reflexivity.
Qed.

Section Refine.
  (** Correctness of the operator functions bound in the generated tables, operator by operator
      (discharged in Proofs/OpsCorrect.v). *)
  Hypothesis eager_correct :
    forall e o, In e eager_table -> name_of (e_key e) = Some o ->
      forall d vs, documented o (length vs) = true -> meq (e_fn e vs) (eager_spec o d vs).
  Hypothesis data_correct :
    forall e o, In e data_table -> name_of (d_key e) = Some o ->
      forall d vs, documented o (length vs) = true -> meq (lift (d_fn e d vs)) (eager_spec o d vs).

  (** operands parsed together, evaluated left to right *)
  Lemma args_refine n d args ps :
    omapM parse args = Ok ps ->
    (forall a, In a args -> meq (apply_fuel n a d) (ref_eval a d)) ->
    meqA (mapM (fun p => evalp n p d) ps) (mapM (fun a => ref_eval a d) args).
  Proof.
    revert ps. induction args as [|a r IH]; intros ps Hp H.
    - injection Hp as <-. apply meqA_ret.
    - cbn [omapM] in Hp. destruct (parse a) as [p|e| |] eqn:Pa; try discriminate. cbn [obind] in Hp.
      destruct (omapM parse r) as [ps'|e| |] eqn:Pr; try discriminate. injection Hp as <-.
      cbn [mapM]. apply meqA_bind.
      + pose proof (H a (or_introl eq_refl)) as Ha. unfold apply_fuel in Ha. rewrite Pa, bind_lift_ok in Ha. exact Ha.
      + intros v. apply meqA_bind; [|intros vs; apply meqA_ret].
        apply IH; [reflexivity|]. intros a' Ha'. apply H. right; exact Ha'.
  Qed.

  Lemma args_fail n d args e :
    omapM parse args = Err e ->
    (forall a, In a args -> meq (apply_fuel n a d) (ref_eval a d)) ->
    exists t e', mapM (fun a => ref_eval a d) args = (t, Err e').
  Proof.
    revert e. induction args as [|a r IH]; intros e Hp H; [discriminate|].
    cbn [omapM] in Hp. cbn [mapM].
    pose proof (H a (or_introl eq_refl)) as Ha. unfold apply_fuel in Ha.
    destruct (parse a) as [p|e0| |] eqn:Pa.
    - rewrite bind_lift_ok in Ha. cbn [obind] in Hp.
      destruct (ref_eval a d) as [t1 [v|e1| |]] eqn:Ra.
      + destruct (omapM parse r) as [ps'|e2| |] eqn:Pr; try discriminate.
        destruct (IH _ eq_refl (fun a' Ha' => H a' (or_intror Ha'))) as [t2 [e3 Hr]].
        rewrite bind_ok, Hr. eexists _, _. reflexivity.
      + eexists _, _. reflexivity.
      + destruct (evalp n p d) as [? [?|?| |]]; contradiction.
      + destruct (evalp n p d) as [? [?|?| |]]; contradiction.
    - destruct (ref_eval a d) as [t1 [v|e1| |]] eqn:Ra; try contradiction.
      eexists _, _. reflexivity.
    - destruct (parse_ok_or_err a) as [[? Hx]|[? Hx]]; congruence.
    - destruct (parse_ok_or_err a) as [[? Hx]|[? Hx]]; congruence.
  Qed.

  Lemma omapM_ok_or_err args : (exists ps, omapM parse args = Ok ps) \/ (exists e, omapM parse args = Err e).
  Proof.
    induction args as [|a r IH]; [left; eexists; reflexivity|]. cbn [omapM].
    destruct (parse_ok_or_err a) as [[p ->]|[e ->]]; [|right; eexists; reflexivity].
    destruct IH as [[ps ->]|[e ->]]; [left | right]; eexists; reflexivity.
  Qed.

  Lemma omapM_length {A B} (f : A -> outcome B) l ps : omapM f l = Ok ps -> length ps = length l.
  Proof.
    revert ps. induction l as [|x r IH]; intros ps; cbn [omapM]; [intros [= <-]; reflexivity|].
    destruct (f x); try discriminate. cbn [obind]. destruct (omapM f r) eqn:E; try discriminate.
    intros [= <-]. simpl. f_equal. apply IH. reflexivity.
  Qed.

  (** eager and data operations: parse the operands, evaluate them in order, apply the operator *)
  Lemma eager_node_refine n d o (fn : list value -> M value) args :
    (forall vs, documented o (length vs) = true -> meq (fn vs) (eager_spec o d vs)) ->
    documented o (length args) = true ->
    (forall a, In a args -> meq (apply_fuel n a d) (ref_eval a d)) ->
    forall (node : list parsed -> parsed),
      (forall ps, evalp (S n) (node ps) d = do vs <- mapM (fun p => evalp n p d) ps; fn vs) ->
      meq (do p <- lift (doo ps <- omapM parse args; Ok (node ps)); evalp (S n) p d)
          (do vs <- mapM (fun a => ref_eval a d) args; eager_spec o d vs).
  Proof.
    intros Hfn Hdoc Hargs node Hnode.
    destruct (omapM_ok_or_err args) as [[ps Hp]|[e Hp]]; rewrite Hp; cbn [obind].
    - rewrite bind_lift_ok, Hnode.
      apply meqA_bind_strong; [apply args_refine; assumption|].
      intros vs t Hvs. apply Hfn.
      rewrite (mapM_length _ _ _ _ Hvs), (omapM_length _ _ _ Hp). exact Hdoc.
    - destruct (args_fail n d args e Hp Hargs) as [t [e' ->]]. exact I.
  Qed.

  Lemma apply_fuel_pe n a d : pe parsed parse (evalp n) a d = apply_fuel n a d.
  Proof. reflexivity. Qed.

  Theorem refine : forall n r d, vdepth r < n -> meq (apply_fuel n r d) (ref_eval r d).
  Proof.
    induction n as [|n IH]; intros r d Hd; [lia|].
    destruct (single_key r) as [[k val]|] eqn:S.
    2:{ unfold apply_fuel. rewrite (parse_not_single r S), bind_lift_ok. cbn [evalp].
        destruct r as [|b|nm|s|l|l]; try apply meqA_ret.
        destruct l as [|[k v] [|kv rest]]; try apply meqA_ret. discriminate. }
    destruct r as [|b|nm|s|l|l]; try discriminate. destruct l as [|[k' v'] [|kv rest]]; try discriminate.
    injection S as -> ->. rewrite vdepth_obj1 in Hd.
    destruct (name_of k) as [o|] eqn:N.
    2:{ rewrite literal_evaluates_to_itself by (simpl; rewrite N; reflexivity).
        cbn [ref_eval]. rewrite N. apply meqA_ret. }
    cbn [ref_eval]. rewrite N.
    apply name_lookup_some in N as Hin. pose proof (unary_sugar_consistent k o Hin) as U.
    destruct (kind_of_name k o N) as [np K]. unfold kind_of in K.
    assert (Hsub : forall a, vdepth a < vdepth val -> forall d', meq (apply_fuel n a d') (ref_eval a d')).
    { intros a Ha d'. apply IH. lia. }
    assert (Hval : forall d', meq (apply_fuel n val d') (ref_eval val d')) by (intros d'; apply IH; lia).
    assert (Hargs : forall args a, val = Arr args -> In a args -> forall d', meq (apply_fuel n a d') (ref_eval a d')).
    { intros args a -> Ha. apply Hsub, vdepth_in, Ha. }
    unfold apply_fuel.
    destruct (lookup e_key eager_table k) as [e|] eqn:HE.
    - (* eager *)
      injection K as Ks _. assert (Lz : is_lazy o = false) by (destruct o; try reflexivity; discriminate Ks).
      rewrite (parse_eager k val e HE). rewrite (np_of_eager k e HE) in U.
      pose proof (lookup_some _ _ _ _ HE) as [Hk He]. assert (Ne : name_of (e_key e) = Some o) by (rewrite Hk; exact N).
      unfold parse_args. rewrite Lz.
      destruct val as [|b|nm|s|args|l].
      all: try (rewrite <- (documented_is_valid k o (e_np e) 1 N (np_of_eager k e HE));
                destruct (can_accept_unary (e_np e));
                [ destruct (is_valid_len (e_np e) 1) eqn:V1; [|exact I]
                | rewrite (U eq_refl); exact I ]).
      + (* bare null etc. are handled uniformly below *) 
        apply (eager_node_refine n d o (e_fn e) [Null]);
          [ intros vs Hv; apply eager_correct; assumption
          | cbn [length]; rewrite <- (documented_is_valid k o (e_np e) 1 N (np_of_eager k e HE)); exact V1
          | intros a [<-|[]]; apply Hval
          | reflexivity ].
      + apply (eager_node_refine n d o (e_fn e) [Bool b]);
          [ intros vs Hv; apply eager_correct; assumption
          | cbn [length]; rewrite <- (documented_is_valid k o (e_np e) 1 N (np_of_eager k e HE)); exact V1
          | intros a [<-|[]]; apply Hval
          | reflexivity ].
      + apply (eager_node_refine n d o (e_fn e) [Num nm]);
          [ intros vs Hv; apply eager_correct; assumption
          | cbn [length]; rewrite <- (documented_is_valid k o (e_np e) 1 N (np_of_eager k e HE)); exact V1
          | intros a [<-|[]]; apply Hval
          | reflexivity ].
      + apply (eager_node_refine n d o (e_fn e) [Str s]);
          [ intros vs Hv; apply eager_correct; assumption
          | cbn [length]; rewrite <- (documented_is_valid k o (e_np e) 1 N (np_of_eager k e HE)); exact V1
          | intros a [<-|[]]; apply Hval
          | reflexivity ].
      + rewrite <- (documented_is_valid k o (e_np e) (length args) N (np_of_eager k e HE)).
        destruct (is_valid_len (e_np e) (length args)) eqn:V; [|exact I].
        apply (eager_node_refine n d o (e_fn e) args);
          [ intros vs Hv; apply eager_correct; assumption
          | rewrite <- (documented_is_valid k o (e_np e) (length args) N (np_of_eager k e HE)); exact V
          | intros a Ha; apply (Hargs args a eq_refl Ha)
          | reflexivity ].
      + rewrite <- (bind_mapM1 (fun a => ref_eval a d) (Obj l) (eager_spec o d)).
        apply (eager_node_refine n d o (e_fn e) [Obj l]);
          [ intros vs Hv; apply eager_correct; assumption
          | cbn [length]; rewrite <- (documented_is_valid k o (e_np e) 1 N (np_of_eager k e HE)); exact V1
          | intros a [<-|[]]; apply Hval
          | reflexivity ].
    - destruct (lookup l_key lazy_meta k) as [e|] eqn:HL.
      + (* lazy *)
        injection K as Ks _. assert (Lz : is_lazy o = true) by (apply lazy_kind; symmetry; exact Ks).
        rewrite (parse_lazy k val e HE HL). rewrite (np_of_lazy k e HE HL) in U. rewrite Lz.
        pose proof (lookup_some _ _ _ _ HL) as [Hk _].
        pose proof (lazy_dispatch k o Hin Lz parsed parse (evalp n)) as LD.
        assert (Hn : 1 <= n) by lia.
        assert (Hstr : forall s d', pe parsed parse (evalp n) (Str s) d' = ret (Str s)).
        { intros s d'. unfold pe. destruct n; [lia | reflexivity]. }
        assert (Hev : forall args' , 
                  evalp (S n) (PLazy (l_key e) args') d = model_lazy o parsed parse (evalp n) d args').
        { intros args'. cbn [evalp]. rewrite Hk.
          destruct (lookup l_key (lazy_table parsed parse (evalp n)) k) as [e'|]; [|discriminate LD].
          injection LD as ->. reflexivity. }
        unfold op_args.
        destruct val as [|b|nm|s|args|l]; cbn [obind].
        all: try (rewrite <- (documented_is_valid k o (l_np e) 1 N (np_of_lazy k e HE HL));
                  destruct (can_accept_unary (l_np e)); cbn [obind length];
                  [ destruct (is_valid_len (l_np e) 1) eqn:V1; [|exact I]
                  | rewrite (U eq_refl); exact I ];
                  cbn [obind]; rewrite bind_lift_ok, Hev;
                  rewrite (documented_is_valid k o (l_np e) 1 N (np_of_lazy k e HE HL)) in V1;
                  destruct o; try discriminate Lz; try discriminate V1; cbn [model_lazy];
                  first [ rewrite if_is_spec | rewrite or_is_spec | rewrite and_is_spec ];
                  apply Hval).
        rewrite <- (documented_is_valid k o (l_np e) (length args) N (np_of_lazy k e HE HL)).
        destruct (is_valid_len (l_np e) (length args)) eqn:V; [|exact I].
        cbn [obind]. rewrite bind_lift_ok, Hev.
        rewrite (documented_is_valid k o (l_np e) (length args) N (np_of_lazy k e HE HL)) in V.
        assert (Hall : Forall (agree (pe parsed parse (evalp n)) (fun a d' => ref_eval a d')) args).
        { apply Forall_forall. intros a Ha d'. apply (Hargs args a eq_refl Ha). }
        assert (Hchk : forall a, In a args -> chk_agree (chk parsed parse) wf_rule a).
        { intros a Ha. unfold chk_agree. apply (parse_wf (S (vdepth a))). lia. }
        destruct o; try discriminate Lz; cbn [model_lazy lazy_spec].
        * rewrite if_is_spec. apply if_spec_congr, Hall.
        * rewrite if_is_spec. apply if_spec_congr, Hall.
        * rewrite or_is_spec. apply or_spec_congr, Hall.
        * rewrite and_is_spec. apply and_spec_congr, Hall.
        * destruct args as [|c [|ex [|? ?]]]; try discriminate V.
          rewrite map_is_spec. inversion Hall as [|? ? Hc Hr]; subst. inversion Hr as [|? ? Hex _]; subst.
          apply map_spec_congr; auto. apply Hchk. right; left; reflexivity.
        * destruct args as [|c [|ex [|? ?]]]; try discriminate V.
          rewrite filter_is_spec. inversion Hall as [|? ? Hc Hr]; subst. inversion Hr as [|? ? Hex _]; subst.
          apply filter_spec_congr; auto. apply Hchk. right; left; reflexivity.
        * destruct args as [|c [|ex [|i [|? ?]]]]; try discriminate V.
          rewrite reduce_is_spec. inversion Hall as [|? ? Hc Hr]; subst. inversion Hr as [|? ? Hex Hr']; subst.
          inversion Hr' as [|? ? Hi _]; subst.
          apply reduce_spec_congr; auto. apply Hchk. right; left; reflexivity.
        * destruct args as [|c [|p [|? ?]]]; try discriminate V.
          rewrite (all_is_spec parsed parse (evalp n) Hstr).
          inversion Hall as [|? ? Hc Hr]; subst. inversion Hr as [|? ? Hp _]; subst.
          apply quant_spec_congr; auto.
          -- intros l ->. apply Forall_forall. intros a Ha d'. apply Hsub.
             pose proof (vdepth_in a l Ha). pose proof (vdepth_in (Arr l) [Arr l; p] (or_introl eq_refl)). lia.
          -- apply Hchk. right; left; reflexivity.
        * destruct args as [|c [|p [|? ?]]]; try discriminate V.
          rewrite (some_is_spec parsed parse (evalp n) Hstr).
          inversion Hall as [|? ? Hc Hr]; subst. inversion Hr as [|? ? Hp _]; subst.
          apply quant_spec_congr; auto.
          -- intros l ->. apply Forall_forall. intros a Ha d'. apply Hsub.
             pose proof (vdepth_in a l Ha). pose proof (vdepth_in (Arr l) [Arr l; p] (or_introl eq_refl)). lia.
          -- apply Hchk. right; left; reflexivity.
        * destruct args as [|c [|p [|? ?]]]; try discriminate V.
          rewrite (none_is_spec parsed parse (evalp n) Hstr).
          inversion Hall as [|? ? Hc Hr]; subst. inversion Hr as [|? ? Hp _]; subst.
          apply none_spec_congr; auto.
          -- intros l ->. apply Forall_forall. intros a Ha d'. apply Hsub.
             pose proof (vdepth_in a l Ha). pose proof (vdepth_in (Arr l) [Arr l; p] (or_introl eq_refl)). lia.
          -- apply Hchk. right; left; reflexivity.
      + (* data *)
        destruct (lookup d_key data_table k) as [e|] eqn:HD; [|discriminate].
        injection K as Ks _. assert (Lz : is_lazy o = false) by (destruct o; try reflexivity; discriminate Ks).
        rewrite (parse_data k val e HE HL HD). rewrite (np_of_data k e HE HL HD) in U.
        pose proof (lookup_some _ _ _ _ HD) as [Hk He]. assert (Ne : name_of (d_key e) = Some o) by (rewrite Hk; exact N).
        unfold parse_args. rewrite Lz.
        destruct val as [|b|nm|s|args|l].
        all: try (rewrite <- (documented_is_valid k o (d_np e) 1 N (np_of_data k e HE HL HD));
                  destruct (can_accept_unary (d_np e));
                  [ destruct (is_valid_len (d_np e) 1) eqn:V1; [|exact I]
                  | rewrite (U eq_refl); exact I ]).
        * apply (eager_node_refine n d o (fun vs => lift (d_fn e d vs)) [Null]);
            [ intros vs Hv; apply data_correct; assumption
            | cbn [length]; rewrite <- (documented_is_valid k o (d_np e) 1 N (np_of_data k e HE HL HD)); exact V1
            | intros a [<-|[]]; apply Hval
            | reflexivity ].
        * apply (eager_node_refine n d o (fun vs => lift (d_fn e d vs)) [Bool b]);
            [ intros vs Hv; apply data_correct; assumption
            | cbn [length]; rewrite <- (documented_is_valid k o (d_np e) 1 N (np_of_data k e HE HL HD)); exact V1
            | intros a [<-|[]]; apply Hval
            | reflexivity ].
        * apply (eager_node_refine n d o (fun vs => lift (d_fn e d vs)) [Num nm]);
            [ intros vs Hv; apply data_correct; assumption
            | cbn [length]; rewrite <- (documented_is_valid k o (d_np e) 1 N (np_of_data k e HE HL HD)); exact V1
            | intros a [<-|[]]; apply Hval
            | reflexivity ].
        * apply (eager_node_refine n d o (fun vs => lift (d_fn e d vs)) [Str s]);
            [ intros vs Hv; apply data_correct; assumption
            | cbn [length]; rewrite <- (documented_is_valid k o (d_np e) 1 N (np_of_data k e HE HL HD)); exact V1
            | intros a [<-|[]]; apply Hval
            | reflexivity ].
        * rewrite <- (documented_is_valid k o (d_np e) (length args) N (np_of_data k e HE HL HD)).
          destruct (is_valid_len (d_np e) (length args)) eqn:V; [|exact I].
          apply (eager_node_refine n d o (fun vs => lift (d_fn e d vs)) args);
            [ intros vs Hv; apply data_correct; assumption
            | rewrite <- (documented_is_valid k o (d_np e) (length args) N (np_of_data k e HE HL HD)); exact V
            | intros a Ha; apply (Hargs args a eq_refl Ha)
            | reflexivity ].
        * rewrite <- (bind_mapM1 (fun a => ref_eval a d) (Obj l) (eager_spec o d)).
          apply (eager_node_refine n d o (fun vs => lift (d_fn e d vs)) [Obj l]);
            [ intros vs Hv; apply data_correct; assumption
            | cbn [length]; rewrite <- (documented_is_valid k o (d_np e) 1 N (np_of_data k e HE HL HD)); exact V1
            | intros a [<-|[]]; apply Hval
            | reflexivity ].
  Qed.
End Refine.
