(** * C18 / C19: facts about the boundary models. *)
From Coq Require Import List ZArith NArith Bool.
From JL Require Import Base.Json Base.Str Base.JsonText Base.Monad Model.Eval Model.Boundary.
Import ListNotations.

(** exit status 0 exactly when both texts parse and evaluation succeeds; then stdout is the log
    lines followed by exactly one line, the serialised result *)
Lemma cli_success logic data out :
  cli logic data = (out, 0%N) <->
  exists r d logs v, logic = Some r /\ data = Some d /\ apply r d = (logs, Ok v) /\
                     out = map json_text logs ++ [json_text v].
Proof.
  unfold cli. split.
  - destruct logic as [r|]; [|discriminate]. destruct data as [d|]; [|discriminate].
    destruct (apply r d) as [logs [v|e| |]] eqn:E; intros [= <-]. exists r, d, logs, v. auto.
  - intros [r [d [logs [v [-> [-> [E ->]]]]]]]. rewrite E. reflexivity.
Qed.

(** on failure nothing but log lines is printed and the status is not 0 *)
Lemma cli_failure logic data out code :
  cli logic data = (out, code) -> code <> 0%N ->
  (logic = None /\ out = []) \/ (data = None /\ out = []) \/
  (exists r d logs, logic = Some r /\ data = Some d /\ fst (apply r d) = logs /\ out = map json_text logs /\
                    forall v, snd (apply r d) <> Ok v).
Proof.
  unfold cli. destruct logic as [r|]; [|intros [= <- <-] _; auto].
  destruct data as [d|]; [|intros [= <- <-] _; auto].
  destruct (apply r d) as [logs [v|e| |]] eqn:E; intros [= <- <-] Hc; try contradiction.
  all: right; right; exists r, d, logs; rewrite E; repeat split; auto; discriminate.
Qed.

(** the three ways of supplying the data agree *)
Lemma cli_three_forms logic data : 
  cli_form AsArgument logic data = cli_form StdinNoArgument logic data /\
  cli_form StdinNoArgument logic data = cli_form StdinDash logic data.
Proof. split; reflexivity. Qed.

(** chaining: if the text parser reads back what the serialiser wrote, piping a (log-free) run
    into a second invocation evaluates the second rule on the first result *)
Section Chain.
  Variable parse_json : str -> parsed_text.
  Hypothesis round_trip : forall v, parse_json (json_text v) = Some v.

  Lemma cli_chain r1 d r2 v1 :
    apply r1 d = ([], Ok v1) ->
    forall line, cli (Some r1) (Some d) = ([line], 0%N) ->
    cli (Some r2) (parse_json line) = cli (Some r2) (Some v1).
  Proof.
    intros E line H. unfold cli in H. rewrite E in H. cbn in H. injection H as <-.
    rewrite round_trip. reflexivity.
  Qed.
End Chain.

(** the Python wrapper: every library error and every unparsable text is a ValueError *)
Lemma py_value_error value data :
  py_native value data = PyValueError <->
  value = None \/ data = None \/ exists r d e, value = Some r /\ data = Some d /\ snd (apply r d) = Err e.
Proof.
  unfold py_native. split.
  - destruct value as [r|]; [|auto]. destruct data as [d|]; [|auto].
    destruct (apply r d) as [logs [v|e| |]] eqn:E; try discriminate. intros _.
    right; right. exists r, d, e. rewrite E. auto.
  - intros [->|[->|[r [d [e [-> [-> H]]]]]]]; [reflexivity | destruct value; reflexivity |].
    destruct (apply r d) as [logs o]. cbn in H. subst o. reflexivity.
Qed.

Lemma py_omitted_data_is_null value : py_apply value None = py_native value (Some Null).
Proof. reflexivity. Qed.

Lemma py_return value data text :
  py_native value data = PyReturn text <->
  exists r d logs v, value = Some r /\ data = Some d /\ apply r d = (logs, Ok v) /\ text = json_text v.
Proof.
  unfold py_native. split.
  - destruct value as [r|]; [|discriminate]. destruct data as [d|]; [|discriminate].
    destruct (apply r d) as [logs [v|e| |]] eqn:E; try discriminate. intros [= <-]. exists r, d, logs, v. auto.
  - intros [r [d [logs [v [-> [-> [E ->]]]]]]]. rewrite E. reflexivity.
Qed.
