(** * C13 / C14: map, filter, reduce, all, some, none of the model are the specifications,
      for every parser P and evaluator E plugged in. *)
From Coq Require Import List Bool Arith Lia.
From JL Require Import Base.Json Base.Lits Base.Monad Model.Ops Spec.Specs Spec.OpSpecs.
From JL Require Import Proofs.MonadLaws Proofs.Truthy.
Import ListNotations.
Local Open Scope m_scope.

Section Arrays.
  Variable parsed : Type.
  Variable P : value -> outcome parsed.
  Variable E : parsed -> value -> M value.
  Notation ev := (pe parsed P E).

  (** "is this expression well formed": the parser accepts it *)
  Definition chk (e : value) : outcome unit := omap (fun _ => tt) (P e).

  Lemma coll_same v : coll_of v = coll_spec v.
  Proof. destruct v; reflexivity. Qed.

  Lemma mapM_ext {A B} (f g : A -> M B) l : (forall x, f x = g x) -> mapM f l = mapM g l.
  Proof. intros H. induction l as [|x r IH]; simpl; [reflexivity|]. rewrite H, IH. reflexivity. Qed.

  (** parse once then evaluate per element  =  check, then parse-and-evaluate per element *)
  Lemma parsed_once {B} (e : value) (k : (value -> M value) -> M B) :
    (forall f g, (forall x, f x = g x) -> k f = k g) ->
    (do p <- lift (P e); k (E p)) = (do _u <- lift (chk e); k (fun x => ev e x)).
  Proof.
    intros Hk. unfold chk, pe. destruct (P e) as [p|er| |]; try reflexivity.
    unfold omap, obind. rewrite !bind_lift_ok. apply Hk. intros x. rewrite bind_lift_ok. reflexivity.
  Qed.

  Theorem map_is_spec d c e : map_ parsed P E d [c; e] = map_spec ev chk d c e.
  Proof.
    unfold map_, map_spec. unfold idx; cbn [nth_error]; rewrite !bind_lift_ok.
    apply bind_ext. intros v. rewrite coll_same. apply bind_ext. intros xs.
    apply (parsed_once e (fun f => do rs <- mapM f xs; ret (Arr rs))).
    intros f g H. rewrite (mapM_ext f g) by exact H. reflexivity.
  Qed.

  (** ** filter *)
  Definition fstep (f : value -> M value) (filtered : list value) (cur : value) : M (list value) :=
    do predicate <- f cur; if truthy predicate then ret (filtered ++ [cur]) else ret filtered.

  Lemma ffold f xs acc :
    foldlM (fstep f) xs acc =
    (do ys <- filterM (fun x => do v <- f x; ret (truthy_spec v)) xs; ret (acc ++ ys)).
  Proof.
    revert acc. induction xs as [|x r IH]; intros acc.
    - cbn [foldlM filterM]. rewrite bind_ret_l, app_nil_r. reflexivity.
    - cbn [foldlM filterM]. unfold fstep at 1. rewrite !bind_assoc. apply bind_ext. intros v.
      rewrite bind_ret_l, bind_if, !bind_ret_l, truthy_eq.
      destruct (truthy_spec v); rewrite IH, !bind_assoc; apply bind_ext; intros ys; rewrite bind_ret_l.
      + rewrite <- app_assoc. reflexivity.
      + reflexivity.
  Qed.

  Theorem filter_is_spec d c e : filter_ parsed P E d [c; e] = filter_spec ev chk d c e.
  Proof.
    unfold filter_, filter_spec. unfold idx; cbn [nth_error]; rewrite !bind_lift_ok.
    apply bind_ext. intros v. rewrite coll_same. apply bind_ext. intros xs.
    transitivity (do p <- lift (P e); do kept <- foldlM (fstep (E p)) xs []; ret (Arr kept)).
    { apply bind_ext. intros p. f_equal.
      etransitivity; [exact (fold_left_bind (fstep (E p)) xs (ret [])) | apply bind_ret_l]. }
    rewrite (parsed_once e (fun f => do kept <- foldlM (fstep f) xs []; ret (Arr kept))).
    - apply bind_ext. intros _u. rewrite ffold, bind_assoc. apply bind_ext. intros ys. rewrite bind_ret_l. reflexivity.
    - intros f g H. rewrite (foldlM_ext (fstep f) (fstep g)); [reflexivity|].
      intros s0 x. unfold fstep. rewrite H. reflexivity.
  Qed.

  (** ** reduce *)
  Lemma reduce_ctx_same cur acc : reduce_ctx cur acc = reduce_ctx_spec cur acc.
  Proof. reflexivity. Qed.

  Lemma foldM_foldlM (f : value -> value -> M value) xs a : foldM f xs a = foldlM f xs a.
  Proof. revert a. induction xs as [|x r IH]; intros a; [reflexivity|]. cbn [foldM foldlM]. apply bind_ext. intros; apply IH. Qed.

  Theorem reduce_is_spec d c e i : reduce_ parsed P E d [c; e; i] = reduce_spec ev chk d c e i.
  Proof.
    unfold reduce_, reduce_spec. unfold idx; cbn [nth_error]; rewrite !bind_lift_ok.
    apply bind_ext. intros v. apply bind_ext. intros init. rewrite coll_same. apply bind_ext. intros xs.
    transitivity (do p <- lift (P e); foldlM (fun a cur => E p (reduce_ctx cur a)) xs init).
    { apply bind_ext. intros p.
      etransitivity; [exact (fold_left_bind (fun a cur => E p (reduce_ctx cur a)) xs (ret init)) | apply bind_ret_l]. }
    rewrite (parsed_once e (fun f => foldlM (fun a cur => f (reduce_ctx cur a)) xs init)).
    - apply bind_ext. intros _u. symmetry. apply foldM_foldlM.
    - intros f g H. apply foldlM_ext. intros s0 x. apply H.
  Qed.

  (** ** all / some / none *)
  Definition qstep (stop rule_text : bool) (d : value) (test : value -> M value) (res : bool) (i : value) : M bool :=
    if Bool.eqb res stop then ret stop
    else do item <- (if rule_text then ev i d else ret i);
         do pr <- test item; ret (truthy pr).

  Definition qtest (rt : bool) (d : value) (test : value -> M value) : value -> M bool :=
    fun i => do x <- (if rt then ev i d else ret i); do r <- test x; ret (truthy_spec r).

  Lemma qfold_stopped stop rt d test xs : foldlM (qstep stop rt d test) xs stop = ret stop.
  Proof.
    induction xs as [|x r IH]; [reflexivity|]. cbn [foldlM]. unfold qstep at 1.
    rewrite Bool.eqb_reflx, bind_ret_l. exact IH.
  Qed.

  Lemma qfold_all rt d test xs :
    foldlM (qstep false rt d test) xs true = forallM (qtest rt d test) xs.
  Proof.
    induction xs as [|x r IH]; [reflexivity|]. cbn [foldlM forallM]. unfold qstep at 1, qtest at 1.
    cbn [Bool.eqb]. rewrite !bind_assoc. apply bind_ext. intros item. rewrite !bind_assoc. apply bind_ext. intros pr.
    rewrite !bind_ret_l, truthy_eq. destruct (truthy_spec pr); [exact IH | apply qfold_stopped].
  Qed.

  Lemma qfold_some rt d test xs :
    foldlM (qstep true rt d test) xs false = existsM (qtest rt d test) xs.
  Proof.
    induction xs as [|x r IH]; [reflexivity|]. cbn [foldlM existsM]. unfold qstep at 1, qtest at 1.
    cbn [Bool.eqb]. rewrite !bind_assoc. apply bind_ext. intros item. rewrite !bind_assoc. apply bind_ext. intros pr.
    rewrite !bind_ret_l, truthy_eq. destruct (truthy_spec pr); [apply qfold_stopped | exact IH].
  Qed.

  Lemma forallM_ext_in (p q : value -> M bool) l : (forall x, In x l -> p x = q x) -> forallM p l = forallM q l.
  Proof.
    induction l as [|x r IH]; intros H; [reflexivity|]. cbn [forallM]. rewrite (H x) by (left; reflexivity).
    apply bind_ext. intros b. destruct b; [|reflexivity]. apply IH. intros y Hy. apply H. right; exact Hy.
  Qed.
  Lemma existsM_ext_in (p q : value -> M bool) l : (forall x, In x l -> p x = q x) -> existsM p l = existsM q l.
  Proof.
    induction l as [|x r IH]; intros H; [reflexivity|]. cbn [existsM]. rewrite (H x) by (left; reflexivity).
    apply bind_ext. intros b. destruct b; [reflexivity|]. apply IH. intros y Hy. apply H. right; exact Hy.
  Qed.

  (** the model's loop over normalised items = the specification's quant_run *)
  Lemma quant_loop (is_all rt : bool) d pred items (get : value -> M value) :
    (forall i, In i items -> (if rt then ev i d else ret i) = get i) ->
    (match items with
     | [] => ret (Bool false)
     | _ => do predicate <- lift (P pred);
            do result <- fold_left (fun acc i => do res <- acc; qstep (negb is_all) rt d (E predicate) res i) items (ret is_all);
            ret (Bool result)
     end) = quant_run ev chk is_all get pred items.
  Proof.
    intros Hget. unfold quant_run. destruct items as [|x r]; [reflexivity|].
    set (xs := x :: r) in *.
    transitivity (do p <- lift (P pred); do result <- foldlM (qstep (negb is_all) rt d (E p)) xs is_all; ret (Bool result)).
    { apply bind_ext. intros p. f_equal.
      etransitivity; [exact (fold_left_bind (qstep (negb is_all) rt d (E p)) xs (ret is_all)) | apply bind_ret_l]. }
    rewrite (parsed_once pred (fun f => do result <- foldlM (qstep (negb is_all) rt d f) xs is_all; ret (Bool result))).
    - apply bind_ext. intros _u. f_equal. destruct is_all; cbn [negb].
      + rewrite qfold_all. apply forallM_ext_in. intros i Hi. unfold qtest. rewrite (Hget i Hi). reflexivity.
      + rewrite qfold_some. apply existsM_ext_in. intros i Hi. unfold qtest. rewrite (Hget i Hi). reflexivity.
    - intros f g H. rewrite (foldlM_ext (qstep (negb is_all) rt d f) (qstep (negb is_all) rt d g)); [reflexivity|].
      intros s0 i. unfold qstep. destruct (Bool.eqb s0 (negb is_all)); [reflexivity|].
      apply bind_ext. intros item. rewrite H. reflexivity.
  Qed.

  (** A string literal's characters are handed to the evaluator like a literal array's elements;
      every evaluator of interest returns a string literal as it is. *)
  Hypothesis ev_str : forall s d, ev (Str s) d = ret (Str s).

  Theorem quant_is_spec (is_all : bool) d c p :
    quant parsed P E is_all (negb is_all) d [c; p] = quant_spec ev chk is_all d c p.
  Proof.
    unfold quant, quant_spec, quant_items. unfold idx; cbn [nth_error]; rewrite !bind_lift_ok.
    destruct c as [|b|n|s|l|l].
    - rewrite !bind_ret_l. reflexivity.
    - rewrite !bind_ret_l. reflexivity.
    - rewrite !bind_ret_l. reflexivity.
    - rewrite !bind_ret_l. cbn [quant_coll]. rewrite !bind_lift_ok.
      apply (quant_loop is_all true d p (map (fun c0 => Str [c0]) s) (fun i => ret i)).
      intros i Hi. apply in_map_iff in Hi as [c0 [<- _]]. apply ev_str.
    - rewrite !bind_ret_l. rewrite !bind_lift_ok.
      apply (quant_loop is_all true d p l (fun i => ev i d)). intros; reflexivity.
    - rewrite !bind_assoc. apply bind_ext. intros v. rewrite !bind_ret_l.
      destruct v as [|b|n|s|l'|l']; cbn [quant_coll]; try reflexivity.
      + rewrite !bind_lift_ok. apply (quant_loop is_all false d p _ (fun i => ret i)). intros; reflexivity.
      + rewrite !bind_lift_ok. apply (quant_loop is_all false d p l' (fun i => ret i)). intros; reflexivity.
  Qed.

  Theorem all_is_spec d c p : all_ parsed P E d [c; p] = quant_spec ev chk true d c p.
  Proof. apply (quant_is_spec true). Qed.

  Theorem some_is_spec d c p : some_ parsed P E d [c; p] = quant_spec ev chk false d c p.
  Proof. apply (quant_is_spec false). Qed.

  Theorem none_is_spec d c p : none_ parsed P E d [c; p] = none_spec ev chk d c p.
  Proof. unfold none_, none_spec. rewrite some_is_spec. reflexivity. Qed.
End Arrays.
