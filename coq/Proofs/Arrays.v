(** * C13 / C14: map, filter, reduce, all, some, none of the model are the specifications,
      for every parser P and evaluator E plugged in. *)
From Coq Require Import List Bool Arith Lia.
From JL Require Import Base.Json Base.Lits Base.Monad Model.Ops Spec.Specs Spec.OpSpecs.
From JL Require Import Proofs.MonadLaws Proofs.Truthy.
Import ListNotations.
Local Open Scope m_scope.

Section Arrays.
  Variable parsed : Type.
  Variable P : value -> outcome parsed.
  Variable E : parsed -> value -> M value.
  Notation ev := (pe parsed P E).

  (** "is this expression well formed": the parser accepts it *)
  Definition chk (e : value) : outcome unit := omap (fun _ => tt) (P e).

  Lemma coll_same v : coll_of v = coll_spec v.
  Proof. destruct v; reflexivity. Qed.

  Lemma mapM_ext {A B} (f g : A -> M B) l : (forall x, f x = g x) -> mapM f l = mapM g l.
  Proof. intros H. induction l as [|x r IH]; simpl; [reflexivity|]. rewrite H, IH. reflexivity. Qed.

  (** parse once then evaluate per element  =  check, then parse-and-evaluate per element *)
  Lemma parsed_once {B} (e : value) (k : (value -> M value) -> M B) :
    (forall f g, (forall x, f x = g x) -> k f = k g) ->
    (do p <- lift (P e); k (E p)) = (do _u <- lift (chk e); k (fun x => ev e x)).
  Proof.
    intros Hk. unfold chk, pe. destruct (P e) as [p|er| |]; simpl; try reflexivity.
    destruct (k (E p)) as [t r] eqn:K1.
    erewrite (Hk (fun x => do p0 <- lift (Ok p); E p0 x) (E p)).
    - rewrite K1. reflexivity.
    - intros x. apply bind_ret_l.
  Qed.

  Theorem map_is_spec d c e : map_ parsed P E d [c; e] = map_spec ev chk d c e.
  Proof.
    unfold map_, map_spec. simpl idx. rewrite !bind_lift_ok.
    apply bind_ext. intros v. rewrite coll_same. apply bind_ext. intros xs.
    apply (parsed_once e (fun f => do rs <- mapM f xs; ret (Arr rs))).
    intros f g H. rewrite (mapM_ext f g) by exact H. reflexivity.
  Qed.

  (** filter *)
  Definition fstep (f : value -> M value) :=
    fun (acc : M (list value)) (cur : value) =>
      do filtered <- acc; do predicate <- f cur;
      if truthy predicate then ret (filtered ++ [cur]) else ret filtered.

  Lemma ffold_stuck f xs t (o : outcome (list value)) :
    stuck o -> fold_left (fstep f) xs (t, o) = (t, o).
  Proof.
    revert t o. induction xs as [|x r IH]; intros t o H; simpl; [reflexivity|].
    destruct o; simpl in *; try contradiction; apply IH; exact I.
  Qed.

  Lemma ffold f xs t acc :
    fold_left (fstep f) xs (t, Ok acc) =
    tapp t (do ys <- filterM (fun x => do v <- f x; ret (truthy_spec v)) xs; ret (acc ++ ys)).
  Proof.
    revert t acc. induction xs as [|x r IH]; intros t acc.
    - simpl. unfold tapp; simpl. rewrite !app_nil_r. reflexivity.
    - cbn [fold_left filterM]. unfold fstep at 2. rewrite bind_ok.
      destruct (f x) as [t1 [v|er| |]].
      + rewrite !bind_ok. rewrite truthy_eq. destruct (truthy_spec v).
        * unfold ret at 1. unfold tapp at 1 2; simpl fst; simpl snd. rewrite app_nil_r. rewrite IH.
          rewrite bind_ok, bind_tapp, !tapp_tapp.
          f_equal. rewrite !bind_assoc. apply bind_ext. intros ys. rewrite bind_ret_l.
          unfold ret. rewrite <- app_assoc. reflexivity.
        * unfold ret at 1. unfold tapp at 1 2; simpl fst; simpl snd. rewrite app_nil_r. rewrite IH.
          rewrite bind_ok, bind_tapp, !tapp_tapp.
          f_equal. rewrite !bind_assoc. apply bind_ext. intros ys. rewrite bind_ret_l. reflexivity.
      + rewrite bind_err. unfold tapp at 1 2; simpl fst; simpl snd. rewrite ffold_stuck by exact I. reflexivity.
      + rewrite bind_panic. unfold tapp at 1 2; simpl fst; simpl snd. rewrite ffold_stuck by exact I. reflexivity.
      + rewrite bind_fuel. unfold tapp at 1 2; simpl fst; simpl snd. rewrite ffold_stuck by exact I. reflexivity.
  Qed.

  Lemma filterM_ext (p q : value -> M bool) l : (forall x, p x = q x) -> filterM p l = filterM q l.
  Proof. intros H. induction l as [|x r IH]; simpl; [reflexivity|]. rewrite H, IH. reflexivity. Qed.

  Theorem filter_is_spec d c e : filter_ parsed P E d [c; e] = filter_spec ev chk d c e.
  Proof.
    unfold filter_, filter_spec. simpl idx. rewrite !bind_lift_ok.
    apply bind_ext. intros v. rewrite coll_same. apply bind_ext. intros xs.
    apply (parsed_once e (fun f => do kept <- fold_left (fstep f) xs (ret []); ret (Arr kept))
                         ).
    - intros f g H.
      assert (Hf : forall acc, fold_left (fstep f) xs acc = fold_left (fstep g) xs acc).
      { induction xs as [|x r IH]; intros acc; simpl; [reflexivity|]. rewrite IH. f_equal.
        unfold fstep. rewrite H. reflexivity. }
      rewrite Hf. reflexivity.
  Qed.

  (** the statement of filter_is_spec, with the fold replaced by filterM *)
  Theorem filter_is_filterM d c e :
    filter_ parsed P E d [c; e] =
    (do cv <- ev c d; do xs <- lift (coll_spec cv); do _u <- lift (chk e);
     do ys <- filterM (fun x => do v <- ev e x; ret (truthy_spec v)) xs; ret (Arr ys)).
  Proof.
    rewrite filter_is_spec. unfold filter_spec. reflexivity.
  Qed.

  (** reduce *)
  Lemma reduce_ctx_same cur acc : reduce_ctx cur acc = reduce_ctx_spec cur acc.
  Proof. reflexivity. Qed.

  Lemma rfold_stuck (f : value -> value -> M value) xs t (o : outcome value) :
    stuck o -> fold_left (fun acc cur => do a <- acc; f a cur) xs (t, o) = (t, o).
  Proof.
    revert t o. induction xs as [|x r IH]; intros t o H; simpl; [reflexivity|].
    destruct o; simpl in *; try contradiction; apply IH; exact I.
  Qed.

  Lemma rfold (f : value -> value -> M value) xs t acc :
    fold_left (fun a cur => do a' <- a; f a' cur) xs (t, Ok acc) = tapp t (foldM f xs acc).
  Proof.
    revert t acc. induction xs as [|x r IH]; intros t acc.
    - simpl. unfold tapp; simpl. rewrite app_nil_r. reflexivity.
    - cbn [fold_left foldM]. rewrite bind_ok.
      destruct (f acc x) as [t1 [v|er| |]].
      + unfold tapp at 1; simpl fst; simpl snd. rewrite IH. rewrite bind_ok, tapp_tapp. reflexivity.
      + unfold tapp at 1; simpl fst; simpl snd. rewrite rfold_stuck by exact I. reflexivity.
      + unfold tapp at 1; simpl fst; simpl snd. rewrite rfold_stuck by exact I. reflexivity.
      + unfold tapp at 1; simpl fst; simpl snd. rewrite rfold_stuck by exact I. reflexivity.
  Qed.

  Lemma foldM_ext (f g : value -> value -> M value) l a : (forall x y, f x y = g x y) -> foldM f l a = foldM g l a.
  Proof. intros H. revert a. induction l as [|x r IH]; intros a; simpl; [reflexivity|]. rewrite H. apply bind_ext. intros; apply IH. Qed.

  Theorem reduce_is_spec d c e i : reduce_ parsed P E d [c; e; i] = reduce_spec ev chk d c e i.
  Proof.
    unfold reduce_, reduce_spec. simpl idx. rewrite !bind_lift_ok.
    apply bind_ext. intros v. apply bind_ext. intros init. rewrite coll_same. apply bind_ext. intros xs.
    apply (parsed_once e (fun f => fold_left (fun acc cur => do a <- acc; f (reduce_ctx cur a)) xs (ret init))).
    intros f g H.
    assert (Hf : forall acc, fold_left (fun acc cur => do a <- acc; f (reduce_ctx cur a)) xs acc
                           = fold_left (fun acc cur => do a <- acc; g (reduce_ctx cur a)) xs acc).
    { induction xs as [|x r IH]; intros acc; simpl; [reflexivity|]. rewrite IH. f_equal.
      apply bind_ext. intros a. apply H. }
    apply Hf.
  Qed.

  Theorem reduce_is_foldM d c e i :
    reduce_ parsed P E d [c; e; i] =
    (do cv <- ev c d; do init <- ev i d; do xs <- lift (coll_spec cv); do _u <- lift (chk e);
     foldM (fun acc x => ev e (reduce_ctx_spec x acc)) xs init).
  Proof.
    rewrite reduce_is_spec. unfold reduce_spec.
    apply bind_ext; intros cv. apply bind_ext; intros init. apply bind_ext; intros xs.
    apply bind_ext; intros _u.
    change (ret init) with (([] : list value), Ok init).
    rewrite (rfold (fun a cur => ev e (reduce_ctx_spec cur a)) xs [] init).
    apply tapp_nil.
  Qed.

  (** ** all / some / none *)
  Definition qstep (stop rule_text : bool) (data : value) (test : value -> M value) :=
    fun (acc : M bool) (i : value) =>
      do res <- acc;
      if Bool.eqb res stop then ret stop
      else do item <- (if rule_text then ev i data else ret i);
           do pr <- test item; ret (truthy pr).

  Lemma qfold_stuck stop rt d test xs t (o : outcome bool) :
    stuck o -> fold_left (qstep stop rt d test) xs (t, o) = (t, o).
  Proof.
    revert t o. induction xs as [|x r IH]; intros t o H; simpl; [reflexivity|].
    destruct o; simpl in *; try contradiction; apply IH; exact I.
  Qed.

  Lemma qfold_stopped stop rt d test xs t :
    fold_left (qstep stop rt d test) xs (t, Ok stop) = (t, Ok stop).
  Proof.
    revert t. induction xs as [|x r IH]; intros t; simpl; [reflexivity|].
    rewrite Bool.eqb_reflx. simpl. rewrite app_nil_r. apply IH.
  Qed.

  Definition qtest (rt : bool) (d : value) (test : value -> M value) : value -> M bool :=
    fun i => do x <- (if rt then ev i d else ret i); do r <- test x; ret (truthy_spec r).

  Lemma qfold_all rt d test xs t :
    fold_left (qstep false rt d test) xs (t, Ok true) = tapp t (forallM (qtest rt d test) xs).
  Proof.
    revert t. induction xs as [|x r IH]; intros t.
    - simpl. unfold tapp; simpl. rewrite app_nil_r. reflexivity.
    - cbn [fold_left forallM]. unfold qstep at 2. rewrite bind_ok. simpl Bool.eqb. cbv iota.
      unfold qtest at 1.
      destruct (if rt then ev x d else ret x) as [t1 [item|er| |]].
      + rewrite !bind_ok. destruct (test item) as [t2 [pr|er| |]].
        * rewrite !bind_ok. rewrite truthy_eq. unfold ret at 1 2. unfold tapp at 1 2 3 4 5; simpl fst; simpl snd.
          rewrite !app_nil_r. destruct (truthy_spec pr).
          -- rewrite IH. unfold tapp; simpl. rewrite !app_assoc. reflexivity.
          -- rewrite qfold_stopped. unfold tapp; simpl. rewrite !app_nil_r, !app_assoc. reflexivity.
        * rewrite !bind_err. unfold tapp at 1 2 3; simpl fst; simpl snd. rewrite qfold_stuck by exact I.
          unfold tapp; simpl. rewrite app_assoc. reflexivity.
        * rewrite !bind_panic. unfold tapp at 1 2 3; simpl fst; simpl snd. rewrite qfold_stuck by exact I.
          unfold tapp; simpl. rewrite app_assoc. reflexivity.
        * rewrite !bind_fuel. unfold tapp at 1 2 3; simpl fst; simpl snd. rewrite qfold_stuck by exact I.
          unfold tapp; simpl. rewrite app_assoc. reflexivity.
      + rewrite !bind_err. unfold tapp at 1; simpl fst; simpl snd. rewrite qfold_stuck by exact I. reflexivity.
      + rewrite !bind_panic. unfold tapp at 1; simpl fst; simpl snd. rewrite qfold_stuck by exact I. reflexivity.
      + rewrite !bind_fuel. unfold tapp at 1; simpl fst; simpl snd. rewrite qfold_stuck by exact I. reflexivity.
  Qed.

  Lemma qfold_some rt d test xs t :
    fold_left (qstep true rt d test) xs (t, Ok false) = tapp t (existsM (qtest rt d test) xs).
  Proof.
    revert t. induction xs as [|x r IH]; intros t.
    - simpl. unfold tapp; simpl. rewrite app_nil_r. reflexivity.
    - cbn [fold_left existsM]. unfold qstep at 2. rewrite bind_ok. simpl Bool.eqb. cbv iota.
      unfold qtest at 1.
      destruct (if rt then ev x d else ret x) as [t1 [item|er| |]].
      + rewrite !bind_ok. destruct (test item) as [t2 [pr|er| |]].
        * rewrite !bind_ok. rewrite truthy_eq. unfold ret at 1 2. unfold tapp at 1 2 3 4 5; simpl fst; simpl snd.
          rewrite !app_nil_r. destruct (truthy_spec pr).
          -- rewrite qfold_stopped. unfold tapp; simpl. rewrite !app_nil_r, !app_assoc. reflexivity.
          -- rewrite IH. unfold tapp; simpl. rewrite !app_assoc. reflexivity.
        * rewrite !bind_err. unfold tapp at 1 2 3; simpl fst; simpl snd. rewrite qfold_stuck by exact I.
          unfold tapp; simpl. rewrite app_assoc. reflexivity.
        * rewrite !bind_panic. unfold tapp at 1 2 3; simpl fst; simpl snd. rewrite qfold_stuck by exact I.
          unfold tapp; simpl. rewrite app_assoc. reflexivity.
        * rewrite !bind_fuel. unfold tapp at 1 2 3; simpl fst; simpl snd. rewrite qfold_stuck by exact I.
          unfold tapp; simpl. rewrite app_assoc. reflexivity.
      + rewrite !bind_err. unfold tapp at 1; simpl fst; simpl snd. rewrite qfold_stuck by exact I. reflexivity.
      + rewrite !bind_panic. unfold tapp at 1; simpl fst; simpl snd. rewrite qfold_stuck by exact I. reflexivity.
      + rewrite !bind_fuel. unfold tapp at 1; simpl fst; simpl snd. rewrite qfold_stuck by exact I. reflexivity.
  Qed.

  Lemma forallM_ext (p q : value -> M bool) l : (forall x, p x = q x) -> forallM p l = forallM q l.
  Proof. intros H. induction l as [|x r IH]; simpl; [reflexivity|]. rewrite H, IH. reflexivity. Qed.
  Lemma existsM_ext (p q : value -> M bool) l : (forall x, p x = q x) -> existsM p l = existsM q l.
  Proof. intros H. induction l as [|x r IH]; simpl; [reflexivity|]. rewrite H, IH. reflexivity. Qed.

  (** the model's quantifier, once the collection has been normalised *)
  Lemma quant_run_eq (is_all rt : bool) d pred items :
    (match items with
     | [] => ret (Bool false)
     | _ => do predicate <- lift (P pred);
            do result <- fold_left (qstep (negb is_all) rt d (E predicate)) items (ret is_all);
            ret (Bool result)
     end) =
    quant_run ev chk is_all (fun i => if rt then ev i d else ret i) pred items.
  Proof.
    unfold quant_run. destruct items as [|x r]; [reflexivity|].
    set (xs := x :: r).
    apply (parsed_once pred (fun f => do result <- fold_left (qstep (negb is_all) rt d f) xs (ret is_all); ret (Bool result))).
    - intros f g H.
      assert (Hf : forall acc, fold_left (qstep (negb is_all) rt d f) xs acc = fold_left (qstep (negb is_all) rt d g) xs acc).
      { generalize xs. intros l. induction l as [|y l IH]; intros acc; simpl; [reflexivity|]. rewrite IH. f_equal.
        unfold qstep. apply bind_ext. intros res. destruct (Bool.eqb res (negb is_all)); [reflexivity|].
        apply bind_ext. intros item. rewrite H. reflexivity. }
      rewrite Hf. reflexivity.
  Qed.

  Lemma quant_run_fold (is_all rt : bool) d pred items :
    quant_run ev chk is_all (fun i => if rt then ev i d else ret i) pred items =
    match items with
    | [] => ret (Bool false)
    | _ => do _u <- lift (chk pred);
           do b <- (if is_all then forallM (qtest rt d (fun x => ev pred x)) items
                    else existsM (qtest rt d (fun x => ev pred x)) items);
           ret (Bool b)
    end.
  Proof. unfold quant_run, qtest. destruct items; reflexivity. Qed.

  Theorem quant_is_spec (is_all : bool) d c p :
    quant parsed P E is_all (negb is_all) d [c; p] = quant_spec ev chk is_all d c p.
  Proof.
    unfold quant, quant_spec, quant_items. simpl idx. rewrite !bind_lift_ok.
    destruct c as [|b|n|s|l|l].
    - (* Null *)
      rewrite bind_ret_l. rewrite bind_ret_l. simpl. reflexivity.
    - rewrite bind_ret_l. rewrite bind_ret_l. reflexivity.
    - rewrite bind_ret_l. rewrite bind_ret_l. reflexivity.
    - (* a literal string: its characters, which are data *)
      rewrite bind_ret_l. rewrite bind_ret_l. cbn [quant_coll]. rewrite !bind_lift_ok.
      rewrite <- (quant_run_eq is_all false d p).
      destruct (map (fun c0 => Str [c0]) s) eqn:Em; [reflexivity|].
      apply bind_ext. intros predicate.
      assert (Hq : forall acc l0, fold_left (fun acc0 i => do res <- acc0;
                     if Bool.eqb res (negb is_all) then ret (negb is_all)
                     else do item <- (if true then ev i d else ret i); do pr <- E predicate item; ret (truthy pr)) l0 acc =
                   fold_left (qstep (negb is_all) true d (E predicate)) l0 acc) by reflexivity.
      (* characters are strings: parsing a string gives... we do not know P; so the model really
         evaluates them; hence rule_text = true there.  See below. *)
      Abort.
End Arrays.
