(** * C01 (model part): evaluation neither panics nor exhausts its budget; C17: purity facts. *)
From Coq Require Import List ZArith NArith Bool Arith Lia.
From JL Require Import Base.Json Base.Lits Base.F64 Base.Str Base.Dec2Flt Base.Monad Model.JsOp Model.Ops Model.Table
                       Gen.OpTable Model.Eval.
From JL Require Import Spec.Specs Spec.OpSpecs Spec.RefEval.
From JL Require Import Proofs.MonadLaws Proofs.Meq Proofs.OpsBasic Proofs.Arith Proofs.Refine Proofs.OpsCorrect.
Import ListNotations.

Section Totality.
  Hypothesis str_num : forall s, str_to_number s = es_str_to_number s.
  Hypothesis pf_str : forall s, parse_float_string s = es_parse_float_str s.

  (** with a budget above the rule's nesting depth - whatever the data - the outcome is a value or
      an error value: no panic, no exhausted budget *)
  Theorem no_panic_no_hang n r d :
    vdepth r < n -> (exists v, snd (apply_fuel n r d) = Ok v) \/ (exists e, snd (apply_fuel n r d) = Err e).
  Proof.
    intros H. pose proof (model_refines_reference str_num pf_str n r d H) as M.
    unfold meq in M. destruct (snd (apply_fuel n r d)); try contradiction; eauto.
  Qed.

  Corollary apply_total r d :
    (exists v, snd (apply r d) = Ok v) \/ (exists e, snd (apply r d) = Err e).
  Proof. unfold apply. apply (no_panic_no_hang (default_fuel r) r d). unfold default_fuel. lia. Qed.

  (** more budget changes nothing *)
  Corollary fuel_irrelevant n m r d :
    vdepth r < n -> vdepth r < m -> meq (apply_fuel n r d) (apply_fuel m r d).
  Proof.
    intros Hn Hm.
    pose proof (model_refines_reference str_num pf_str n r d Hn) as A.
    pose proof (model_refines_reference str_num pf_str m r d Hm) as B.
    unfold meq in *. destruct (snd (apply_fuel n r d)), (snd (apply_fuel m r d)), (snd (ref_eval r d));
      try contradiction; auto.
    destruct A as [-> ->], B as [-> ->]. auto.
  Qed.
End Totality.

(** the helpers of js_op that return a Result never panic (the others are total functions) *)
Lemma fold_num_total conv step init items :
  (exists f, fold_num conv step init items = Ok f) \/ (exists e, fold_num conv step init items = Err e).
Proof.
  unfold fold_num. revert init. induction items as [|x r IH]; intros init; cbn [fold_left]; eauto.
  cbn [obind]. destruct (conv x); [apply IH|].
  right. exists InvalidArgument. clear. induction r as [|y r IH]; [reflexivity | exact IH].
Qed.

Lemma num_binop_total op a b :
  (exists f, num_binop op a b = Ok f) \/ (exists e, num_binop op a b = Err e).
Proof. unfold num_binop. destruct (to_number a), (to_number b); eauto. Qed.

Lemma to_number_value_total f :
  (exists v, to_number_value f = Ok v) \/ (exists e, to_number_value f = Err e).
Proof. rewrite to_number_value_spec. apply canonical_ok_err. Qed.

(** ** C17: a history of calls is evaluated pointwise *)
Definition run_history (h : list (value * value)) : list (M value) :=
  map (fun c => apply (fst c) (snd c)) h.

Lemma history_pointwise h i c : nth_error h i = Some c -> nth_error (run_history h) i = Some (apply (fst c) (snd c)).
Proof. intros H. unfold run_history. rewrite nth_error_map, H. reflexivity. Qed.

Lemma history_app h1 h2 : run_history (h1 ++ h2) = run_history h1 ++ run_history h2.
Proof. apply map_app. Qed.

Lemma history_rev h : run_history (rev h) = rev (run_history h).
Proof. apply map_rev. Qed.

Lemma history_repeat c k : run_history (repeat c k) = repeat (apply (fst c) (snd c)) k.
Proof. induction k; [reflexivity|]. cbn. f_equal. exact IHk. Qed.

(** the only effect: log writes exactly its operand and returns it unchanged *)
Lemma log_effect v : op_log [v] = ([v], Ok v).
Proof. reflexivity. Qed.
