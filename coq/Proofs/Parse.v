(** * Equations for the model's parser (Parsed::from_value). *)
From Coq Require Import List ZArith NArith Bool Lia.
From JL Require Import Base.Json Base.Lits Base.Monad Model.Ops Model.Table Gen.OpTable Model.Eval.
From JL Require Import Spec.Specs Proofs.Tables.
Import ListNotations.
Local Open Scope m_scope.

Lemma lookup_some {A} (key_of : A -> str) (tbl : list A) k e :
  lookup key_of tbl k = Some e -> key_of e = k /\ In e tbl.
Proof.
  induction tbl as [|x r IH]; simpl; [discriminate|].
  destruct (str_eqb (key_of x) k) eqn:E.
  - intros [= <-]. apply str_eqb_eq in E. auto.
  - intros H. destruct (IH H). auto.
Qed.

(** the tables are pairwise disjoint (checked on the generated tables) *)
Lemma eager_not_lazy_nor_data :
  forallb (fun e => match lookup l_key lazy_meta (e_key e), lookup d_key data_table (e_key e) with
                    | None, None => true | _, _ => false end) eager_table = true.
Proof. vm_compute. reflexivity. Qed.

Lemma lazy_not_data :
  forallb (fun e => match lookup d_key data_table (l_key e) with None => true | _ => false end) lazy_meta = true.
Proof. vm_compute. reflexivity. Qed.

Lemma eager_excl k e : lookup e_key eager_table k = Some e ->
  lookup l_key lazy_meta k = None /\ lookup d_key data_table k = None.
Proof.
  intros H. apply lookup_some in H as [<- Hin].
  pose proof eager_not_lazy_nor_data as D. rewrite forallb_forall in D. specialize (D e Hin).
  destruct (lookup l_key lazy_meta (e_key e)), (lookup d_key data_table (e_key e)); try discriminate. auto.
Qed.

Lemma lazy_excl k e : lookup l_key lazy_meta k = Some e -> lookup d_key data_table k = None.
Proof.
  intros H. apply lookup_some in H as [<- Hin].
  pose proof lazy_not_data as D. rewrite forallb_forall in D. specialize (D e Hin).
  destruct (lookup d_key data_table (l_key e)); [discriminate | reflexivity].
Qed.

(** operands of an eager / data operation, parsed recursively *)
Definition parse_args (np : num_params) (val : value) : outcome (list parsed) :=
  match val with
  | Arr args => if is_valid_len np (length args) then omapM parse args else Err WrongArgumentCount
  | _ => if can_accept_unary np
         then (if is_valid_len np 1 then doo p <- parse val; Ok [p] else Err WrongArgumentCount)
         else Err InvalidOperation
  end.

Lemma parse_list_eq (l : list value) :
  (fix go (l : list value) : outcome (list parsed) :=
     match l with
     | [] => Ok []
     | x :: xs => doo p <- parse x; doo ps <- go xs; Ok (p :: ps)
     end) l = omapM parse l.
Proof. induction l as [|x r IH]; [reflexivity|]. cbn [omapM]. rewrite <- IH. reflexivity. Qed.

Definition single_key (v : value) : option (str * value) :=
  match v with Obj [(k, val)] => Some (k, val) | _ => None end.

Lemma parse_not_single v : single_key v = None -> parse v = Ok (PRaw v).
Proof.
  destruct v as [|b|n|s|l|l]; try reflexivity.
  destruct l as [|[k val] [|kv r]]; try reflexivity. discriminate.
Qed.

Lemma parse_eager k val e :
  lookup e_key eager_table k = Some e ->
  parse (Obj [(k, val)]) = doo ps <- parse_args (e_np e) val; Ok (POp e ps).
Proof.
  intros H. destruct (eager_excl k e H) as [HL HD].
  cbn [parse]. rewrite H, HL, HD. unfold parse_args.
  destruct val as [|b|n|s|l|l];
    try (destruct (can_accept_unary (e_np e)); [destruct (is_valid_len (e_np e) 1); [|reflexivity] | reflexivity];
         match goal with |- context [parse ?x] => destruct (parse x) as [p|er| |]; reflexivity end).
  destruct (is_valid_len (e_np e) (length l)); [|reflexivity].
  rewrite parse_list_eq. destruct (omapM parse l); reflexivity.
Qed.

Lemma parse_lazy k val e :
  lookup e_key eager_table k = None -> lookup l_key lazy_meta k = Some e ->
  parse (Obj [(k, val)]) = doo args <- op_args (l_np e) val; Ok (PLazy (l_key e) args).
Proof.
  intros HE H. pose proof (lazy_excl k e H) as HD.
  cbn [parse]. rewrite HE, H, HD. destruct (op_args (l_np e) val); reflexivity.
Qed.

Lemma parse_data k val e :
  lookup e_key eager_table k = None -> lookup l_key lazy_meta k = None -> lookup d_key data_table k = Some e ->
  parse (Obj [(k, val)]) = doo ps <- parse_args (d_np e) val; Ok (PData e ps).
Proof.
  intros HE HL H.
  cbn [parse]. rewrite HE, HL, H. unfold parse_args.
  destruct val as [|b|n|s|l|l];
    try (destruct (can_accept_unary (d_np e)); [destruct (is_valid_len (d_np e) 1); [|reflexivity] | reflexivity];
         match goal with |- context [parse ?x] => destruct (parse x) as [p|er| |]; reflexivity end).
  destruct (is_valid_len (d_np e) (length l)); [|reflexivity].
  rewrite parse_list_eq. destruct (omapM parse l); reflexivity.
Qed.

Lemma parse_unknown k val :
  lookup e_key eager_table k = None -> lookup l_key lazy_meta k = None -> lookup d_key data_table k = None ->
  parse (Obj [(k, val)]) = Ok (PRaw (Obj [(k, val)])).
Proof. intros HE HL HD. cbn [parse]. rewrite HE, HL, HD. reflexivity. Qed.

(** C02: a value that is not an operation parses as a raw literal *)
Lemma parse_literal v : is_operation v = false -> parse v = Ok (PRaw v).
Proof.
  intros H. destruct (single_key v) as [[k val]|] eqn:S; [|apply parse_not_single, S].
  destruct v as [|b|n|s|l|l]; try discriminate.
  destruct l as [|[k' val'] [|kv r]]; try discriminate. injection S as -> ->.
  simpl in H. destruct (name_of k) eqn:N; [discriminate|].
  pose proof (unknown_key k N) as U. unfold kind_of in U.
  destruct (lookup e_key eager_table k) eqn:HE; [discriminate|].
  destruct (lookup l_key lazy_meta k) eqn:HL; [discriminate|].
  destruct (lookup d_key data_table k) eqn:HD; [discriminate|].
  apply parse_unknown; assumption.
Qed.
