(** * The refinement relation [meq] and its congruence lemmas for the specification combinators. *)
From Coq Require Import List Bool Arith Lia.
From JL Require Import Base.Json Base.Monad Spec.Specs Spec.OpSpecs.
From JL Require Import Proofs.MonadLaws.
Import ListNotations.
Local Open Scope m_scope.

(** meq for computations of any result type *)
Definition meqA {A} (a b : M A) : Prop :=
  match snd a, snd b with
  | Ok x, Ok y => x = y /\ fst a = fst b
  | Err _, Err _ => True
  | _, _ => False
  end.

Lemma meq_is_meqA a b : meq a b <-> meqA a b.
Proof. reflexivity. Qed.

Lemma meqA_ret {A} (v : A) : meqA (ret v) (ret v).
Proof. unfold meqA; simpl; split; reflexivity. Qed.

Lemma meqA_fail {A} e e' : @meqA A (fail e) (fail e').
Proof. exact I. Qed.

Lemma meqA_tapp {A} t (a b : M A) : meqA a b -> meqA (tapp t a) (tapp t b).
Proof.
  destruct a as [ta [x|e| |]], b as [tb [y|e'| |]]; unfold meqA, tapp; simpl; try tauto.
  intros [-> ->]. auto.
Qed.

Lemma meqA_bind {A B} (m1 m2 : M A) (f1 f2 : A -> M B) :
  meqA m1 m2 -> (forall v, meqA (f1 v) (f2 v)) -> meqA (bind m1 f1) (bind m2 f2).
Proof.
  destruct m1 as [t1 [x|e| |]], m2 as [t2 [y|e'| |]]; intros H1 H2; try (exact H1 || contradiction H1).
  destruct H1 as [Hx Ht]. cbn in Hx, Ht. subst. rewrite !bind_ok. apply meqA_tapp, H2.
Qed.

(** the outcome of a related pair is never a panic or an exhausted budget *)
Lemma meqA_no_crash_l {A} (a b : M A) : meqA a b -> snd a <> Panic /\ snd a <> OutOfFuel.
Proof. destruct a as [t [x|e| |]], b as [t' [y|e'| |]]; unfold meqA; simpl; intuition discriminate. Qed.

Definition oeq {A} (a b : outcome A) : Prop :=
  match a, b with
  | Ok x, Ok y => x = y
  | Err _, Err _ => True
  | _, _ => False
  end.

Lemma meqA_lift {A} (a b : outcome A) : oeq a b -> meqA (lift a) (lift b).
Proof. destruct a, b; unfold oeq, meqA; simpl; tauto. Qed.

Lemma oeq_refl_ok {A} (a : outcome A) : (exists x, a = Ok x) \/ (exists e, a = Err e) -> oeq a a.
Proof. intros [[x ->]|[e ->]]; simpl; auto. Qed.

(** ** Congruence of the specification combinators in the operand evaluator *)
Section Congruence.
  Variables ev1 ev2 : value -> value -> M value.
  Variables chk1 chk2 : value -> outcome unit.

  (** the evaluators agree on the expression [a], for every data *)
  Definition agree (a : value) : Prop := forall d, meq (ev1 a d) (ev2 a d).

  Lemma if_spec_congr d args : Forall agree args -> meq (if_spec ev1 d args) (if_spec ev2 d args).
  Proof.
    induction args as [|a|c b rest IH] using list_ind2; intros H.
    - apply meqA_ret.
    - inversion H; subst. apply H2.
    - inversion H as [|? ? Hc H']; subst. inversion H' as [|? ? Hb Hr]; subst.
      cbn [if_spec]. apply meqA_bind; [apply Hc|]. intros v.
      destruct (truthy_spec v); [apply Hb | apply IH, Hr].
  Qed.

  Lemma or_spec_congr d args : Forall agree args -> meq (or_spec ev1 d args) (or_spec ev2 d args).
  Proof.
    induction args as [|a r IH]; intros H; [exact I|].
    inversion H as [|? ? Ha Hr]; subst. destruct r as [|b r']; [apply Ha|].
    cbn [or_spec]. apply meqA_bind; [apply Ha|]. intros v.
    destruct (truthy_spec v); [apply meqA_ret | apply IH, Hr].
  Qed.

  Lemma and_spec_congr d args : Forall agree args -> meq (and_spec ev1 d args) (and_spec ev2 d args).
  Proof.
    induction args as [|a r IH]; intros H; [exact I|].
    inversion H as [|? ? Ha Hr]; subst. destruct r as [|b r']; [apply Ha|].
    cbn [and_spec]. apply meqA_bind; [apply Ha|]. intros v.
    destruct (truthy_spec v); [apply IH, Hr | apply meqA_ret].
  Qed.

  Lemma mapM_congr {A B} (f g : A -> M B) xs : (forall x, meqA (f x) (g x)) -> meqA (mapM f xs) (mapM g xs).
  Proof.
    intros H. induction xs as [|x r IH]; [apply meqA_ret|]. cbn [mapM].
    apply meqA_bind; [apply H|]. intros y. apply meqA_bind; [apply IH|]. intros ys. apply meqA_ret.
  Qed.

  Lemma filterM_congr (p q : value -> M bool) xs : (forall x, meqA (p x) (q x)) -> meqA (filterM p xs) (filterM q xs).
  Proof.
    intros H. induction xs as [|x r IH]; [apply meqA_ret|]. cbn [filterM].
    apply meqA_bind; [apply H|]. intros k. apply meqA_bind; [apply IH|]. intros ys. apply meqA_ret.
  Qed.

  Lemma foldM_congr (f g : value -> value -> M value) xs a :
    (forall x y, meq (f x y) (g x y)) -> meq (foldM f xs a) (foldM g xs a).
  Proof.
    intros H. revert a. induction xs as [|x r IH]; intros a; [apply meqA_ret|]. cbn [foldM].
    apply meqA_bind; [apply H|]. intros a'. apply IH.
  Qed.

  Lemma forallM_congr_in (p q : value -> M bool) xs :
    (forall x, In x xs -> meqA (p x) (q x)) -> meqA (forallM p xs) (forallM q xs).
  Proof.
    induction xs as [|x r IH]; intros H; [apply meqA_ret|]. cbn [forallM].
    apply meqA_bind; [apply H; left; reflexivity|]. intros b. destruct b; [|apply meqA_ret].
    apply IH. intros y Hy. apply H. right; exact Hy.
  Qed.

  Lemma existsM_congr_in (p q : value -> M bool) xs :
    (forall x, In x xs -> meqA (p x) (q x)) -> meqA (existsM p xs) (existsM q xs).
  Proof.
    induction xs as [|x r IH]; intros H; [apply meqA_ret|]. cbn [existsM].
    apply meqA_bind; [apply H; left; reflexivity|]. intros b. destruct b; [apply meqA_ret|].
    apply IH. intros y Hy. apply H. right; exact Hy.
  Qed.

  Definition chk_agree (e : value) : Prop := oeq (chk1 e) (chk2 e).

  Lemma coll_spec_oeq v : oeq (coll_spec v) (coll_spec v).
  Proof. destruct v; simpl; auto. Qed.

  Lemma map_spec_congr d c e :
    agree c -> agree e -> chk_agree e -> meq (map_spec ev1 chk1 d c e) (map_spec ev2 chk2 d c e).
  Proof.
    intros Hc He Hk. unfold map_spec. apply meqA_bind; [apply Hc|]. intros cv.
    apply meqA_bind; [apply meqA_lift, coll_spec_oeq|]. intros xs.
    apply meqA_bind; [apply meqA_lift, Hk|]. intros _u.
    apply meqA_bind; [apply mapM_congr; intros x; apply He|]. intros ys. apply meqA_ret.
  Qed.

  Lemma filter_spec_congr d c e :
    agree c -> agree e -> chk_agree e -> meq (filter_spec ev1 chk1 d c e) (filter_spec ev2 chk2 d c e).
  Proof.
    intros Hc He Hk. unfold filter_spec. apply meqA_bind; [apply Hc|]. intros cv.
    apply meqA_bind; [apply meqA_lift, coll_spec_oeq|]. intros xs.
    apply meqA_bind; [apply meqA_lift, Hk|]. intros _u.
    apply meqA_bind.
    - apply filterM_congr. intros x. apply meqA_bind; [apply He|]. intros v. apply meqA_ret.
    - intros ys. apply meqA_ret.
  Qed.

  Lemma reduce_spec_congr d c e i :
    agree c -> agree e -> agree i -> chk_agree e ->
    meq (reduce_spec ev1 chk1 d c e i) (reduce_spec ev2 chk2 d c e i).
  Proof.
    intros Hc He Hi Hk. unfold reduce_spec. apply meqA_bind; [apply Hc|]. intros cv.
    apply meqA_bind; [apply Hi|]. intros init.
    apply meqA_bind; [apply meqA_lift, coll_spec_oeq|]. intros xs.
    apply meqA_bind; [apply meqA_lift, Hk|]. intros _u.
    apply foldM_congr. intros x y. apply He.
  Qed.

  Lemma quant_run_congr is_all (g1 g2 : value -> M value) pred items :
    (forall i, In i items -> meq (g1 i) (g2 i)) -> agree pred -> chk_agree pred ->
    meq (quant_run ev1 chk1 is_all g1 pred items) (quant_run ev2 chk2 is_all g2 pred items).
  Proof.
    intros Hg Hp Hk. unfold quant_run. destruct items as [|x r]; [apply meqA_ret|].
    apply meqA_bind; [apply meqA_lift, Hk|]. intros _u.
    assert (Ht : forall i, In i (x :: r) ->
                 meqA (do x0 <- g1 i; do r0 <- ev1 pred x0; ret (truthy_spec r0))
                      (do x0 <- g2 i; do r0 <- ev2 pred x0; ret (truthy_spec r0))).
    { intros i Hi. apply meqA_bind; [apply Hg, Hi|]. intros x0.
      apply meqA_bind; [apply Hp|]. intros r0. apply meqA_ret. }
    apply meqA_bind; [|intros b; apply meqA_ret].
    destruct is_all; [apply forallM_congr_in | apply existsM_congr_in]; exact Ht.
  Qed.

  Lemma quant_coll_oeq v : oeq (quant_coll v) (quant_coll v).
  Proof. destruct v; simpl; auto. Qed.

  Lemma quant_spec_congr is_all d c p :
    agree c -> (forall l, c = Arr l -> Forall agree l) -> agree p -> chk_agree p ->
    meq (quant_spec ev1 chk1 is_all d c p) (quant_spec ev2 chk2 is_all d c p).
  Proof.
    intros Hc Hl Hp Hk. unfold quant_spec.
    destruct c as [|b|n|s|l|l].
    - apply meqA_bind; [apply meqA_lift, quant_coll_oeq|]. intros items.
      apply quant_run_congr; auto. intros; apply meqA_ret.
    - apply meqA_bind; [apply meqA_lift, quant_coll_oeq|]. intros items.
      apply quant_run_congr; auto. intros; apply meqA_ret.
    - apply meqA_bind; [apply meqA_lift, quant_coll_oeq|]. intros items.
      apply quant_run_congr; auto. intros; apply meqA_ret.
    - apply meqA_bind; [apply meqA_lift, quant_coll_oeq|]. intros items.
      apply quant_run_congr; auto. intros; apply meqA_ret.
    - apply quant_run_congr; auto. intros i Hi.
      specialize (Hl l eq_refl). rewrite Forall_forall in Hl. apply Hl, Hi.
    - apply meqA_bind; [apply Hc|]. intros v.
      apply meqA_bind; [apply meqA_lift, quant_coll_oeq|]. intros items.
      apply quant_run_congr; auto. intros; apply meqA_ret.
  Qed.

  Lemma none_spec_congr d c p :
    agree c -> (forall l, c = Arr l -> Forall agree l) -> agree p -> chk_agree p ->
    meq (none_spec ev1 chk1 d c p) (none_spec ev2 chk2 d c p).
  Proof.
    intros Hc Hl Hp Hk. unfold none_spec. apply meqA_bind; [apply quant_spec_congr; auto|].
    intros r. destruct r; try exact I. apply meqA_ret.
  Qed.
End Congruence.
