(** * Small corollaries about the specifications themselves. *)
From Coq Require Import List Bool ZArith NArith Lia.
From JL Require Import Base.Json Base.F64 Base.Str Spec.Specs.
Import ListNotations.

(** C08: whenever === holds, == holds too *)
Lemma strict_implies_abstract a b : es_strict_eq a b = true -> es_eq a b = true.
Proof.
  destruct a as [|x|x|x|x|x], b as [|y|y|y|y|y]; cbn; try discriminate; try (intros; reflexivity).
  - intros H. apply Bool.eqb_prop in H. subst. destruct y; vm_compute; reflexivity.
  - exact (fun H => H).
  - exact (fun H => H).
Qed.
