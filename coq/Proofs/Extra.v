(** * Small corollaries about the specifications themselves. *)
From Coq Require Import List Bool ZArith NArith Lia.
From JL Require Import Base.Json Base.F64 Base.Str Spec.Specs.
Import ListNotations.

(** C08: whenever === holds, == holds too *)
Lemma strict_implies_abstract a b : es_strict_eq a b = true -> es_eq a b = true.
Proof.
  destruct a as [|x|x|x|x|x], b as [|y|y|y|y|y]; cbn; try discriminate; try (intros; reflexivity).
  - intros H. apply Bool.eqb_prop in H. subst. destruct y; vm_compute; reflexivity.
  - exact (fun H => H).
  - exact (fun H => H).
Qed.

(** ** Further laws of the specifications (added after the main development).
    They say that the specification objects the property theorems refer to have the shape
    the ECMAScript text gives them, so a property proved against them means what it reads as. *)
From Coq Require Import Floats.SpecFloat.
From JL Require Import Proofs.Floats.

(** C08: strict equality is symmetric *)
Lemma strict_eq_sym a b : es_strict_eq a b = es_strict_eq b a.
Proof.
  destruct a as [|x|x|x|x|x], b as [|y|y|y|y|y]; cbn; try reflexivity.
  - destruct x, y; reflexivity.
  - apply f64_eqb_sym.
  - apply str_eqb_sym.
Qed.

(** C07: abstract equality on primitives, and on all values, is symmetric *)
Lemma prim_eq_sym p q : prim_eq p q = prim_eq q p.
Proof.
  unfold prim_eq.
  destruct p as [|x|x|x|x|x], q as [|y|y|y|y|y]; try reflexivity;
    try apply str_eqb_sym;
    repeat match goal with
    | |- context [match ?e with Some _ => _ | None => _ end] =>
        lazymatch e with
        | es_to_number _ => destruct e
        | es_str_to_number _ => destruct e
        end
    end; try reflexivity; apply f64_eqb_sym.
Qed.

Lemma abstract_eq_sym a b : es_eq a b = es_eq b a.
Proof.
  unfold es_eq. rewrite (andb_comm (is_container a)).
  destruct (is_container b && is_container a); [reflexivity|apply prim_eq_sym].
Qed.

(** C09: a < b implies a <= b; a < b and b < a never both hold; NaN makes every comparison false *)
Lemma lt_implies_le a b : es_lt a b = true -> es_le a b = true.
Proof. unfold es_lt, es_le. destruct (es_compare a b) as [[]|]; congruence. Qed.

Lemma compare_none_all_false a b :
  es_compare a b = None -> es_lt a b = false /\ es_le a b = false.
Proof. unfold es_lt, es_le. intros ->. split; reflexivity. Qed.

Lemma le_is_lt_or_eqcmp a b :
  es_le a b = es_lt a b || match es_compare a b with Some Eq => true | _ => false end.
Proof. unfold es_lt, es_le. destruct (es_compare a b) as [[]|]; reflexivity. Qed.

(** C06: truthiness depends on a number only through its float value;
    every object and every non-empty array or string is truthy *)
Lemma truthy_obj m : truthy_spec (Obj m) = true.
Proof. reflexivity. Qed.
Lemma truthy_arr_nonempty x l : truthy_spec (Arr (x :: l)) = true.
Proof. reflexivity. Qed.
Lemma truthy_str_nonempty c s : truthy_spec (Str (c :: s)) = true.
Proof. reflexivity. Qed.
Lemma truthy_num_nan n : as_f64 n = S754_nan -> truthy_spec (Num n) = true.
Proof. cbn. intros ->. reflexivity. Qed.

(** C03: the documented counts are never empty for any operator, and 2 operands are
    documented for every binary-looking operator *)
Lemma documented_inhabited o : exists n, documented o n = true.
Proof. destruct o; first [exists 2%nat; reflexivity | exists 1%nat; reflexivity | exists 3%nat; reflexivity | exists 0%nat; reflexivity]. Qed.

(** C09: the comparison is antisymmetric: swapping the operands reverses the outcome,
    so a < b and b < a never hold together and a <= b, b <= a together mean "compare equal" *)
Lemma str_order_total' x y : negb (str_ltb y x) = str_ltb x y || str_eqb x y.
Proof.
  revert y. induction x as [|a x IH]; intros [|b y]; cbn; try reflexivity.
  destruct (N.ltb_spec a b), (N.ltb_spec b a), (N.eqb_spec a b), (N.eqb_spec b a); subst; try lia; try reflexivity.
  apply IH.
Qed.

Lemma str_cmp_flip x y :
  (if str_ltb y x then Lt else if str_eqb y x then Eq else Gt) =
  CompOpp (if str_ltb x y then Lt else if str_eqb x y then Eq else Gt).
Proof.
  pose proof (str_order_total' x y) as H1. pose proof (str_order_total' y x) as H2.
  rewrite (str_eqb_sym y x) in *.
  destruct (str_ltb x y), (str_ltb y x), (str_eqb x y) eqn:E; cbn in *; try discriminate; try reflexivity.
Qed.

Lemma es_compare_flip a b : es_compare b a = option_map CompOpp (es_compare a b).
Proof.
  unfold es_compare.
  destruct (to_primitive_spec a) as [|x|x|x|x|x], (to_primitive_spec b) as [|y|y|y|y|y];
    cbn [es_to_number option_map];
    try (cbn; f_equal; apply str_cmp_flip);
    repeat match goal with
    | |- context [es_str_to_number ?s] => destruct (es_str_to_number s)
    end; cbn [option_map]; try reflexivity; try apply f64_compare_sym.
Qed.

Lemma lt_asym a b : es_lt a b = true -> es_lt b a = false.
Proof. unfold es_lt. rewrite (es_compare_flip a b). destruct (es_compare a b) as [[]|]; cbn; congruence. Qed.

Lemma gt_is_flipped_lt a b :
  es_lt b a = match es_compare a b with Some Gt => true | _ => false end.
Proof. unfold es_lt. rewrite (es_compare_flip a b). destruct (es_compare a b) as [[]|]; reflexivity. Qed.

Lemma le_le_compare_eq a b :
  es_le a b = true -> es_le b a = true -> es_compare a b = Some Eq.
Proof. unfold es_le. rewrite (es_compare_flip a b). destruct (es_compare a b) as [[]|]; cbn; congruence. Qed.

Print Assumptions es_compare_flip.
Print Assumptions abstract_eq_sym.
Print Assumptions strict_eq_sym.
