(** * C07 / C09: abstract equality and relational comparison of the model are the ECMAScript
      specifications, given that the string-to-number scanner implements StringToNumber. *)
From Coq Require Import List ZArith NArith Bool Arith Lia.
From Coq Require Import Floats.SpecFloat.
From JL Require Import Base.Json Base.Lits Base.F64 Base.Str Base.Dec2Flt Base.Monad Model.JsOp Model.Ops.
From JL Require Import Spec.Specs Spec.OpSpecs Proofs.Floats Proofs.OpsBasic.
Import ListNotations.

Section Compare.
  Hypothesis str_num : forall s, str_to_number s = es_str_to_number s.

  Lemma to_number_spec v : to_number v = es_to_number v.
  Proof.
    destruct v; cbn [to_number to_primitive to_primitive_number es_to_number]; try reflexivity;
      rewrite ?str_num, ?to_string_eq; reflexivity.
  Qed.

  Lemma as_f64_one : as_f64 (Float f64_one) = f64_one /\ as_f64 (Float f64_zero) = f64_zero.
  Proof. split; reflexivity. Qed.

  (** == *)
  Theorem abstract_eq_spec a b : abstract_eq a b = es_eq a b.
  Proof.
    destruct a as [|x|x|x|x|x], b as [|y|y|y|y|y];
      cbn [abstract_eq abstract_eq_nobool abstract_eq_prim es_eq is_container andb to_primitive_spec prim_eq
           bool_num eq_num_str es_to_number as_f64];
      unfold eq_num_str; cbn [as_f64]; rewrite ?str_num, ?to_string_eq; try reflexivity.
    all: try (destruct x; reflexivity).
    all: try (destruct y; reflexivity).
    all: try (destruct x, y; reflexivity).
    all: try (destruct (es_str_to_number _); reflexivity).
    all: try (destruct (es_str_to_number _); [apply f64_eqb_sym | reflexivity]).
    all: try (destruct x; destruct (es_str_to_number _); try reflexivity; apply f64_eqb_sym).
  Qed.

  Theorem abstract_ne_spec a b : abstract_ne a b = negb (es_eq a b).
  Proof. unfold abstract_ne. rewrite abstract_eq_spec. reflexivity. Qed.

  (** the relation is symmetric *)
  Lemma prim_eq_sym p q : prim_eq p q = prim_eq q p.
  Proof.
    destruct p, q; cbn [prim_eq es_to_number]; try reflexivity.
    all: try (destruct b; try destruct b0; reflexivity).
    all: try apply f64_eqb_sym.
    all: try apply str_eqb_sym.
    all: try (destruct (es_str_to_number _); [apply f64_eqb_sym | reflexivity]).
    all: try (destruct b; destruct (es_str_to_number _); try reflexivity; apply f64_eqb_sym).
    all: repeat match goal with |- context [es_str_to_number ?s] => destruct (es_str_to_number s) end;
      try reflexivity; apply f64_eqb_sym.
  Qed.

  Theorem es_eq_sym a b : es_eq a b = es_eq b a.
  Proof. unfold es_eq. rewrite andb_comm. destruct (is_container b && is_container a); [reflexivity | apply prim_eq_sym]. Qed.

  (** ** relational operators *)
  Lemma str_order_total x y : negb (str_ltb y x) = str_ltb x y || str_eqb x y.
  Proof.
    revert y. induction x as [|a x IH]; intros [|b y]; cbn; try reflexivity.
    destruct (N.ltb_spec a b), (N.ltb_spec b a), (N.eqb_spec a b), (N.eqb_spec b a); subst; try lia; try reflexivity.
    apply IH.
  Qed.

  Definition dec_of (fs : str -> str -> bool) (ff : f64 -> f64 -> bool) (dec : comparison -> bool) : Prop :=
    (forall x y, fs x y = dec (if str_ltb x y then Lt else if str_eqb x y then Eq else Gt)) /\
    (forall x y, ff x y = match f64_compare x y with Some c => dec c | None => false end).

  Lemma prim_cmp_spec fs ff dec a b : dec_of fs ff dec ->
    prim_cmp fs ff a b = match es_compare a b with Some c => dec c | None => false end.
  Proof.
    intros [Hs Hf]. unfold prim_cmp, es_compare.
    destruct a as [|x|x|x|x|x], b as [|y|y|y|y|y];
      cbn [to_primitive to_primitive_number to_primitive_spec is_container es_to_number];
      rewrite ?str_num, ?to_string_eq, ?Hs, ?Hf; try reflexivity.
    all: try (destruct (es_str_to_number _); rewrite ?Hf; reflexivity).
  Qed.

  Lemma lt_dec : dec_of str_ltb f64_ltb (fun c => match c with Lt => true | _ => false end).
  Proof.
    split; intros x y.
    - destruct (str_ltb x y); [reflexivity|]. destruct (str_eqb x y); reflexivity.
    - reflexivity.
  Qed.

  Lemma le_dec : dec_of str_leb f64_leb (fun c => match c with Lt | Eq => true | _ => false end).
  Proof.
    split; intros x y.
    - unfold str_leb. rewrite str_order_total. destruct (str_ltb x y); [reflexivity|]. destruct (str_eqb x y); reflexivity.
    - reflexivity.
  Qed.

  Theorem abstract_lt_spec a b : abstract_lt a b = es_lt a b.
  Proof. unfold abstract_lt, es_lt. rewrite (prim_cmp_spec _ _ _ a b lt_dec). destruct (es_compare a b) as [[]|]; reflexivity. Qed.

  Theorem abstract_lte_spec a b : abstract_lte a b = es_le a b.
  Proof. unfold abstract_lte, es_le. rewrite (prim_cmp_spec _ _ _ a b le_dec). destruct (es_compare a b) as [[]|]; reflexivity. Qed.

  Lemma prim_cmp_flip fs ff a b : prim_cmp (fun x y => fs y x) (fun x y => ff y x) a b = prim_cmp fs ff b a.
  Proof.
    unfold prim_cmp. destruct (to_primitive a), (to_primitive b); try reflexivity.
  Qed.

  Theorem abstract_gt_spec a b : abstract_gt a b = es_lt b a.
  Proof. unfold abstract_gt. rewrite (prim_cmp_flip str_ltb f64_ltb a b). apply abstract_lt_spec. Qed.

  Theorem abstract_gte_spec a b : abstract_gte a b = es_le b a.
  Proof. unfold abstract_gte. apply abstract_lte_spec. Qed.
End Compare.
