(** * Consequences of the var / missing specifications (C11 / C12). *)
From Coq Require Import List ZArith NArith Bool Arith Lia.
From JL Require Import Base.Json Base.Lits Base.Str Base.Monad Spec.Specs Spec.OpSpecs.
Import ListNotations.
Local Open Scope m_scope.

Lemma var_present_wins d k v dflt : lookup_spec d k = Ok (Some v) -> var_spec d [k; dflt] = Ok v /\ var_spec d [k] = Ok v.
Proof. intros H. unfold var_spec. rewrite H. split; reflexivity. Qed.

Lemma var_absent d k dflt : lookup_spec d k = Ok None -> var_spec d [k; dflt] = Ok dflt /\ var_spec d [k] = Ok Null.
Proof. intros H. unfold var_spec. rewrite H. split; reflexivity. Qed.

Lemma var_whole d dflt :
  var_spec d [] = Ok d /\ var_spec d [Null] = Ok d /\ var_spec d [Str []] = Ok d /\
  var_spec d [Null; dflt] = Ok d /\ var_spec d [Str []; dflt] = Ok d.
Proof. repeat split; reflexivity. Qed.

(** a null value that is present is returned in preference to the default *)
Lemma var_present_null d k dflt : lookup_spec d k = Ok (Some Null) -> var_spec d [k; dflt] = Ok Null.
Proof. intros H. unfold var_spec. rewrite H. reflexivity. Qed.

(** frame: object members not named by the path do not influence the lookup *)
Lemma obj_get_insert_other m k x seg : str_eqb seg k = false -> obj_get (obj_insert m k x) seg = obj_get m seg.
Proof.
  intros H. induction m as [|[k' v'] r IH]; cbn [obj_insert obj_get].
  - rewrite H. reflexivity.
  - destruct (str_eqb k k') eqn:E.
    + apply str_eqb_eq in E. subst k'. cbn [obj_get]. rewrite H. reflexivity.
    + destruct (str_ltb k k'); cbn [obj_get]; [rewrite H; reflexivity|].
      destruct (str_eqb seg k'); [reflexivity | exact IH].
Qed.

Lemma resolve_frame m k x seg rest :
  str_eqb seg k = false -> resolve (seg :: rest) (Obj (obj_insert m k x)) = resolve (seg :: rest) (Obj m).
Proof. intros H. cbn [resolve step_spec]. rewrite obj_get_insert_other by exact H. reflexivity. Qed.

(** array elements other than the indexed one do not influence the lookup *)
Lemma nth_error_app_other {A} (l : list A) (extra : list A) (i : nat) : i < length l -> nth_error (l ++ extra) i = nth_error l i.
Proof. intros H. apply nth_error_app1, H. Qed.

(** missing agrees with var: a key is reported exactly when var finds nothing for it *)
Lemma missing_iff_var_default d k :
  lookup_spec d k = Ok None <-> (forall s, var_spec d [k; s] = Ok s).
Proof.
  split.
  - intros H s. apply var_absent, H.
  - intros H. pose proof (H Null) as H0. pose proof (H (Bool true)) as H1.
    unfold var_spec in H0, H1. destruct (lookup_spec d k) as [[v|]|e| |]; cbn [obind] in *; try discriminate.
    + congruence.
    + reflexivity.
Qed.

Lemma missing_keys_in d keys m k :
  missing_keys d keys = Ok m -> (In k m <-> In k keys /\ is_null k = false /\ lookup_spec d k = Ok None).
Proof.
  revert m. induction keys as [|x r IH]; intros m; cbn [missing_keys].
  - intros [= <-]. split; [contradiction | intros [[] _]].
  - destruct (lookup_spec d x) as [found|e| |] eqn:L; try discriminate. cbn [obind].
    destruct (missing_keys d r) as [rest|e| |] eqn:R; try discriminate. cbn [obind]. intros [= <-].
    specialize (IH rest eq_refl).
    destruct (is_null x) eqn:Nx.
    + rewrite IH. split.
      * intros [H1 H2]. split; [right; exact H1 | exact H2].
      * intros [[->|H1] [H2 H3]]; [congruence | auto].
    + destruct found as [v|].
      * rewrite IH. split.
        -- intros [H1 H2]. split; [right; exact H1 | exact H2].
        -- intros [[->|H1] [H2 H3]]; [congruence | auto].
      * cbn [In]. rewrite IH. split.
        -- intros [->|[H1 H2]]; [split; [left; reflexivity | auto] | split; [right; exact H1 | exact H2]].
        -- intros [[->|H1] H2]; [left; reflexivity | right; auto].
Qed.

(** a key present with a null or empty value is not missing *)
Lemma present_not_missing d keys m k v :
  missing_keys d keys = Ok m -> lookup_spec d k = Ok (Some v) -> ~ In k m.
Proof. intros Hm Hk Hin. apply (missing_keys_in d keys m k Hm) in Hin as [_ [_ H]]. congruence. Qed.

(** missing_some: enough present keys give [], however often an absent key is listed *)
Lemma missing_some_threshold d need keys m :
  missing_keys d keys = Ok m ->
  missing_some_spec d need keys =
  if (need <=? N.of_nat (count_present d keys))%N then Ok (Arr []) else Ok (Arr (dedup m [])).
Proof. intros H. unfold missing_some_spec. rewrite H. reflexivity. Qed.

Lemma absent_never_counted d k r : lookup_spec d k = Ok None -> count_present d (k :: r) = count_present d r.
Proof. intros H. unfold count_present. cbn [filter]. rewrite H, andb_false_r. reflexivity. Qed.
