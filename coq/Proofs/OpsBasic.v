(** * Operator functions of the model against their specifications: the structural ones
      (to_string, strict equality, truthiness operators, merge, cat, log, in, substr). *)
From Coq Require Import List ZArith NArith Bool Arith Lia.
From JL Require Import Base.Json Base.Lits Base.F64 Base.Str Base.Flt2Dec Base.Monad Model.JsOp Model.Ops.
From JL Require Import Spec.Specs Spec.OpSpecs Spec.RefEval Proofs.MonadLaws Proofs.Truthy.
Import ListNotations.
Local Open Scope m_scope.

(** ** to_string *)
Lemma to_string_eq v : to_string v = to_string_spec v.
Proof. induction v using value_ind'; reflexivity. Qed.

(** ** === and !== *)
Lemma strict_eq_spec a b : strict_eq false a b = es_strict_eq a b.
Proof. reflexivity. Qed.

(** ** merge *)
Lemma merge_fold vs acc :
  fold_left (fun acc i => match i with Arr vals => acc ++ vals | _ => acc ++ [i] end) vs acc = acc ++ merge_spec vs.
Proof.
  revert acc. induction vs as [|v r IH]; intros acc; [symmetry; apply app_nil_r|].
  simpl fold_left. rewrite IH. unfold merge_spec. cbn [flat_map].
  destruct v; rewrite <- app_assoc; reflexivity.
Qed.

Lemma op_merge_spec vs : op_merge vs = Ok (Arr (merge_spec vs)).
Proof. unfold op_merge. rewrite merge_fold. reflexivity. Qed.

Lemma merge_length vs :
  length (merge_spec vs) =
  fold_right (fun v n => match v with Arr l => length l + n | _ => S n end) 0 vs.
Proof.
  induction vs as [|v r IH]; [reflexivity|]. unfold merge_spec in *. cbn [flat_map fold_right].
  rewrite app_length, IH. destruct v; reflexivity.
Qed.

(** ** cat *)
Lemma cat_fold vs acc :
  fold_left (fun acc i => acc ++ match i with Str s => s | _ => to_string i end) vs acc = acc ++ cat_spec vs.
Proof.
  revert acc. induction vs as [|v r IH]; intros acc; [symmetry; apply app_nil_r|].
  simpl fold_left. rewrite IH. unfold cat_spec. cbn [map concat]. rewrite <- app_assoc. f_equal. f_equal.
  destruct v; try reflexivity; apply to_string_eq.
Qed.

Lemma op_cat_spec vs : op_cat vs = Ok (Str (cat_spec vs)).
Proof. unfold op_cat. rewrite cat_fold. reflexivity. Qed.

Lemma cat_spec_app xs ys : cat_spec (xs ++ ys) = cat_spec xs ++ cat_spec ys.
Proof. unfold cat_spec. rewrite map_app, concat_app. reflexivity. Qed.

(** concatenating in pieces equals concatenating at once *)
Lemma cat_pieces xs ys : cat_spec [Str (cat_spec xs); Str (cat_spec ys)] = cat_spec (xs ++ ys).
Proof. rewrite cat_spec_app. unfold cat_spec at 1. cbn [map concat to_string_spec]. now rewrite ?app_nil_r. Qed.

(** ** in *)
Lemma starts_with_prefix p s : starts_with p s = is_prefix p s.
Proof. reflexivity. Qed.

Lemma str_contains_infix hay needle : str_contains hay needle = is_infix needle hay.
Proof.
  induction hay as [|c r IH]; cbn [str_contains is_infix]; rewrite starts_with_prefix; [reflexivity|].
  rewrite IH. reflexivity.
Qed.

Lemma deep_eq_json_eq a : forall b, deep_eq a b = json_eq a b.
Proof.
  induction a using value_ind'; intros b'; destruct b'; try reflexivity.
  - (* arrays *)
    cbn [deep_eq json_eq]. f_equal.
    revert l0. induction H as [|x l Hx Hl IH]; intros l0; [reflexivity|].
    destruct l0 as [|y l0]; [reflexivity|]. rewrite Hx, IH. reflexivity.
  - (* objects *)
    cbn [deep_eq json_eq]. f_equal.
    induction H as [|[k x] l Hx Hl IH]; [reflexivity|].
    cbn [snd] in Hx. rewrite IH. destruct (obj_get l0 k); [rewrite Hx|]; reflexivity.
Qed.

Lemma op_in_spec a b : op_in [a; b] = in_spec a b.
Proof.
  unfold op_in, in_spec. unfold idx; cbn [nth_error obind].
  destruct b; try reflexivity.
  - destruct a; try reflexivity. rewrite str_contains_infix. reflexivity.
  - f_equal. f_equal. induction l as [|x r IH]; [reflexivity|]. cbn [existsb]. rewrite deep_eq_json_eq, IH. reflexivity.
Qed.

(** ** log *)
Lemma op_log_spec a : op_log [a] = ([a], Ok a).
Proof. reflexivity. Qed.

(** ** substr *)
Lemma firstn_skipn_clamp {A} (s : list A) (a b : nat) :
  length s - a <= b -> firstn b (skipn a s) = skipn a s.
Proof. intros H. apply firstn_all2. rewrite skipn_length. exact H. Qed.

Lemma substr_core s i len :
  (let string_len := Z.of_nat (length s) in
   let idx_abs := Z.abs i in
   let start_idx := if (i <? 0)%Z then (if (idx_abs <=? string_len)%Z then string_len - idx_abs else 0)%Z
                    else Z.min string_len idx_abs in
   let end_idx :=
     match len with
     | None => string_len
     | Some l =>
         let limit_abs := Z.abs l in
         if (l <? 0)%Z then (if (limit_abs <=? string_len)%Z then string_len - limit_abs else 0)%Z
         else Z.min string_len (start_idx + limit_abs)%Z
     end in
   let count := if (start_idx <=? end_idx)%Z then (end_idx - start_idx)%Z else 0%Z in
   firstn (Z.to_nat count) (skipn (Z.to_nat start_idx) s)) = substr_spec s i len.
Proof.
  cbv zeta. unfold substr_spec.
  set (n := Z.of_nat (length s)).
  assert (Hn : (0 <= n)%Z) by (unfold n; lia).
  set (start_m := if (i <? 0)%Z then (if (Z.abs i <=? n)%Z then n - Z.abs i else 0)%Z else Z.min n (Z.abs i)).
  set (start_s := if (0 <=? i)%Z then Z.min i n else Z.max 0 (n + i)).
  assert (Hs : start_m = start_s).
  { unfold start_m, start_s. destruct (Z.ltb_spec i 0), (Z.leb_spec 0 i); try lia.
    all: destruct (Z.leb_spec (Z.abs i) n); lia. }
  rewrite Hs. clear Hs start_m.
  assert (Hs0 : (0 <= start_s <= n)%Z).
  { unfold start_s. destruct (Z.leb_spec 0 i); lia. }
  set (stop_s := match len with
                 | None => n
                 | Some l => if (0 <=? l)%Z then Z.min n (start_s + l) else Z.max 0 (n + l)
                 end).
  assert (He : match len with
               | None => n
               | Some l => if (l <? 0)%Z then (if (Z.abs l <=? n)%Z then n - Z.abs l else 0)%Z
                           else Z.min n (start_s + Z.abs l)
               end = stop_s).
  { unfold stop_s. destruct len as [l|]; [|reflexivity].
    destruct (Z.ltb_spec l 0), (Z.leb_spec 0 l); try lia.
    all: try (destruct (Z.leb_spec (Z.abs l) n); lia).
    all: rewrite Z.abs_eq by lia; reflexivity. }
  rewrite He. clear He.
  destruct (Z.ltb_spec start_s stop_s) as [Hlt|Hge].
  - destruct (Z.leb_spec start_s stop_s); [reflexivity | lia].
  - destruct (Z.leb_spec start_s stop_s) as [Hle|Hgt].
    + assert (stop_s = start_s) by lia. rewrite H, Z.sub_diag. reflexivity.
    + reflexivity.
Qed.

Lemma op_substr_spec vs : (length vs = 2 \/ length vs = 3) -> op_substr vs = substr_op_spec vs.
Proof.
  intros H. destruct vs as [|a [|b [|c [|x r]]]]; simpl in H; try lia.
  - unfold op_substr, substr_op_spec. unfold idx; cbn [nth_error obind length Nat.ltb Nat.leb].
    destruct a; try reflexivity. unfold arg_i64, int_operand.
    destruct b; try reflexivity. destruct (as_i64 n); [|reflexivity]. cbn [obind].
    f_equal. f_equal. apply (substr_core s z None).
  - unfold op_substr, substr_op_spec. unfold idx; cbn [nth_error obind length Nat.ltb Nat.leb].
    destruct a; try reflexivity. unfold arg_i64, int_operand.
    destruct b; try (destruct c; reflexivity).
    destruct (as_i64 n) as [i|]; [|destruct c; reflexivity]. cbn [obind].
    destruct c; try reflexivity. destruct (as_i64 n0) as [l|]; [|reflexivity]. cbn [obind].
    f_equal. f_equal. apply (substr_core s i (Some l)).
Qed.

(** for every string s and every i >= 0, substr(s,0,i) followed by substr(s,i) is s *)
Lemma substr_split s i : (0 <= i)%Z -> substr_spec s 0 (Some i) ++ substr_spec s i None = s.
Proof.
  intros Hi. unfold substr_spec.
  set (n := Z.of_nat (length s)). assert (Hn : (0 <= n)%Z) by (unfold n; lia).
  replace (0 <=? 0)%Z with true by reflexivity. replace (0 <=? i)%Z with true by (symmetry; apply Z.leb_le; exact Hi).
  rewrite (Z.min_l 0 n) by lia. rewrite Z.add_0_l, Z.sub_0_r.
  set (m := Z.min i n). replace (Z.min n i) with m by (unfold m; lia).
  assert (Hm : (0 <= m <= n)%Z) by (unfold m; lia).
  change (Z.to_nat 0) with 0%nat. cbn [skipn].
  assert (Hlen : Z.to_nat n = length s) by (unfold n; lia).
  destruct (Z.ltb_spec 0 m) as [Hpos|Hz].
  - destruct (Z.ltb_spec m n) as [Hlt|Hge].
    + rewrite firstn_skipn_clamp by (rewrite <- Hlen; lia). apply firstn_skipn.
    + assert (m = n) by lia. subst m. rewrite H, Hlen, firstn_all. apply app_nil_r.
  - assert (m = 0)%Z by lia. rewrite H. cbn [app].
    destruct (Z.ltb_spec 0 n) as [Hlt|Hge].
    + change (Z.to_nat 0) with 0%nat. cbn [skipn]. rewrite Z.sub_0_r, Hlen. apply firstn_all.
    + assert (n = 0)%Z by lia. destruct s; [reflexivity | unfold n in *; simpl in *; lia].
Qed.
