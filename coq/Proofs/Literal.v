(** * C02: literals evaluate to themselves; the 35 names are dispatched. *)
From Coq Require Import List ZArith NArith Bool Lia.
From JL Require Import Base.Json Base.Lits Base.Monad Model.Ops Model.Table Gen.OpTable Model.Eval.
From JL Require Import Spec.Specs Proofs.MonadLaws Proofs.Tables Proofs.Parse.
Import ListNotations.
Local Open Scope m_scope.

Lemma literal_evaluates_to_itself r :
  is_operation r = false -> forall n d, apply_fuel (S n) r d = ret r.
Proof.
  intros H n d. unfold apply_fuel. rewrite (parse_literal r H). rewrite bind_lift_ok. reflexivity.
Qed.

(** what a parse result is dispatched to *)
Definition dispatched_key (p : parsed) : option str :=
  match p with
  | POp e _ => Some (e_key e)
  | PData e _ => Some (d_key e)
  | PLazy key _ => Some key
  | PRaw _ => None
  end.

Lemma name_in_tables k o : name_of k = Some o -> exists kd np, kind_of k = Some (kd, np).
Proof.
  intros H. apply name_lookup_some in H.
  pose proof kinds_match as K. rewrite forallb_forall in K. specialize (K (k, o) H). simpl in K.
  destruct (kind_of k) as [[kd np]|]; [eauto | discriminate].
Qed.

Lemma operation_is_dispatched k o a :
  name_of k = Some o ->
  match parse (Obj [(k, a)]) with
  | Ok p => dispatched_key p = Some k
  | _ => True
  end.
Proof.
  intros H. destruct (name_in_tables k o H) as [kd [np K]]. unfold kind_of in K.
  destruct (lookup e_key eager_table k) as [e|] eqn:HE.
  - rewrite (parse_eager k a e HE). destruct (parse_args (e_np e) a); simpl; auto.
    apply lookup_some in HE as [<- _]. reflexivity.
  - destruct (lookup l_key lazy_meta k) as [e|] eqn:HL.
    + rewrite (parse_lazy k a e HE HL). destruct (op_args (l_np e) a); simpl; auto.
      apply lookup_some in HL as [<- _]. reflexivity.
    + destruct (lookup d_key data_table k) as [e|] eqn:HD; [|discriminate].
      rewrite (parse_data k a e HE HL HD). destruct (parse_args (d_np e) a); simpl; auto.
      apply lookup_some in HD as [<- _]. reflexivity.
Qed.
