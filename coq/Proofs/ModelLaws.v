(** * Laws of the modelled code itself (not of the specifications): corollaries obtained by
      transporting the laws of the specification objects (Proofs/Extra.v) through the
      refinement theorems.  Each statement is about the functions of Model/JsOp.v and
      Model/Ops.v, i.e. about what src/js_op.rs and src/op/*.rs compute, for all values. *)
From Coq Require Import List Bool ZArith NArith.
From Coq Require Import Floats.SpecFloat.
From JL Require Import Base.Json Base.F64 Base.Str Base.Monad Model.JsOp Model.Ops Spec.Specs.
From JL Require Import Proofs.Floats Proofs.Extra Proofs.Compare Proofs.Scan Proofs.OpsBasic Proofs.Truthy.
Import ListNotations.

(** == of the code is symmetric (the code has separate branches for (a,b) and (b,a)) *)
Theorem code_abstract_eq_sym a b : abstract_eq a b = abstract_eq b a.
Proof. rewrite !(abstract_eq_spec str_to_number_spec). apply abstract_eq_sym. Qed.

Theorem code_abstract_ne_sym a b : abstract_ne a b = abstract_ne b a.
Proof. rewrite !(abstract_ne_spec str_to_number_spec). f_equal. apply abstract_eq_sym. Qed.

Theorem code_ne_is_not_eq a b : abstract_ne a b = negb (abstract_eq a b).
Proof. rewrite (abstract_ne_spec str_to_number_spec), (abstract_eq_spec str_to_number_spec). reflexivity. Qed.

(** === of the code is symmetric and implies == *)
Theorem code_strict_eq_sym a b : strict_eq false a b = strict_eq false b a.
Proof. rewrite !strict_eq_spec. apply strict_eq_sym. Qed.

Theorem code_strict_implies_abstract a b : strict_eq false a b = true -> abstract_eq a b = true.
Proof. rewrite strict_eq_spec, (abstract_eq_spec str_to_number_spec). apply strict_implies_abstract. Qed.

(** relational operators of the code: < is asymmetric and implies <=; > is swapped <;
    <= and >= together mean "the operands compare equal" (which is not ==: see below) *)
Theorem code_lt_asym a b : abstract_lt a b = true -> abstract_lt b a = false.
Proof. rewrite !(abstract_lt_spec str_to_number_spec). apply lt_asym. Qed.

Theorem code_lt_implies_lte a b : abstract_lt a b = true -> abstract_lte a b = true.
Proof. rewrite (abstract_lt_spec str_to_number_spec), (abstract_lte_spec str_to_number_spec). apply lt_implies_le. Qed.

Theorem code_lt_excludes_gte a b : abstract_lt a b = true -> abstract_gte a b = false.
Proof.
  rewrite (abstract_lt_spec str_to_number_spec), (abstract_gte_spec str_to_number_spec).
  unfold es_lt, es_le. rewrite (es_compare_flip a b). destruct (es_compare a b) as [[]|]; cbn; congruence.
Qed.

Theorem code_lte_gte_compare_eq a b :
  abstract_lte a b = true -> abstract_gte a b = true -> es_compare a b = Some Eq.
Proof.
  rewrite (abstract_lte_spec str_to_number_spec), (abstract_gte_spec str_to_number_spec).
  apply le_le_compare_eq.
Qed.

(** the JavaScript corner that the repaired <= / >= must honour: null <= 0 and null >= 0 hold
    although null == 0 does not (so <= is not "< or ==", the defect fixed in /repo) *)
Example code_null_lte_zero :
  abstract_lte Null (Num (Float f64_zero)) = true /\
  abstract_gte Null (Num (Float f64_zero)) = true /\
  abstract_eq Null (Num (Float f64_zero)) = false /\
  abstract_lt Null (Num (Float f64_zero)) = false.
Proof. vm_compute. repeat split. Qed.

(** truthiness of the code: containers and non-empty strings *)
Theorem code_truthy_obj m : truthy (Obj m) = true.
Proof. rewrite truthy_eq. reflexivity. Qed.
Theorem code_truthy_arr_nonempty x l : truthy (Arr (x :: l)) = true.
Proof. rewrite truthy_eq. reflexivity. Qed.
Theorem code_truthy_str_nonempty c s : truthy (Str (c :: s)) = true.
Proof. rewrite truthy_eq. reflexivity. Qed.

Print Assumptions code_abstract_eq_sym.
Print Assumptions code_strict_implies_abstract.
Print Assumptions code_lt_excludes_gte.
Print Assumptions code_lte_gte_compare_eq.
