(** * The hand-written scanners of js_op.rs recognise the ECMAScript grammars:
      str_to_number = StringToNumber (StringNumericLiteral), parse_float_string = parseFloat
      (longest StrDecimalLiteral prefix). *)
From Coq Require Import List ZArith NArith Bool Arith Lia.
From Coq Require Import Floats.SpecFloat.
From JL Require Import Base.Json Base.Lits Base.F64 Base.Str Base.Dec2Flt Spec.Specs.
Import ListNotations.
Local Open Scope N_scope.

(** ** take_while / drop_while / split_at *)
Lemma take_drop {A} (p : A -> bool) s : take_while p s ++ drop_while p s = s.
Proof. induction s as [|c r IH]; [reflexivity|]. cbn. destruct (p c); cbn; [f_equal; exact IH | reflexivity]. Qed.

Lemma take_while_all {A} (p : A -> bool) s : forallb p (take_while p s) = true.
Proof. induction s as [|c r IH]; [reflexivity|]. cbn. destruct (p c) eqn:E; cbn; [rewrite E; exact IH | reflexivity]. Qed.

Lemma drop_while_head {A} (p : A -> bool) s : match drop_while p s with [] => True | c :: _ => p c = false end.
Proof. induction s as [|c r IH]; [exact I|]. cbn. destruct (p c) eqn:E; [exact IH | exact E]. Qed.

Lemma skipn_take_while {A} (p : A -> bool) s : skipn (length (take_while p s)) s = drop_while p s.
Proof. induction s as [|c r IH]; [reflexivity|]. cbn. destruct (p c); cbn; [exact IH | reflexivity]. Qed.

Lemma take_while_app_all {A} (p : A -> bool) a b : forallb p a = true -> take_while p (a ++ b) = a ++ take_while p b.
Proof. induction a as [|c r IH]; intros H; [reflexivity|]. cbn in *. apply andb_true_iff in H as [Hc Hr]. rewrite Hc. f_equal. apply IH, Hr. Qed.

Lemma take_while_stop {A} (p : A -> bool) c r : p c = false -> take_while p (c :: r) = [].
Proof. intros H. cbn. rewrite H. reflexivity. Qed.

Lemma drop_while_app_all {A} (p : A -> bool) a b : forallb p a = true -> drop_while p (a ++ b) = drop_while p b.
Proof. induction a as [|c r IH]; intros H; [reflexivity|]. cbn in *. apply andb_true_iff in H as [Hc Hr]. rewrite Hc. apply IH, Hr. Qed.

Lemma split_at_none (q : N -> bool) a : forallb (fun c => negb (q c)) a = true -> split_at q a = (a, None).
Proof.
  induction a as [|c r IH]; intros H; [reflexivity|]. cbn in *. apply andb_true_iff in H as [Hc Hr].
  apply negb_true_iff in Hc. rewrite Hc, (IH Hr). reflexivity.
Qed.

Lemma split_at_app (q : N -> bool) a b :
  forallb (fun c => negb (q c)) a = true -> split_at q (a ++ b) = (a ++ fst (split_at q b), snd (split_at q b)).
Proof.
  induction a as [|c r IH]; intros H; [cbn; destruct (split_at q b); reflexivity|].
  cbn in *. apply andb_true_iff in H as [Hc Hr]. apply negb_true_iff in Hc. rewrite Hc, (IH Hr). reflexivity.
Qed.

Lemma split_at_hit (q : N -> bool) c r : q c = true -> split_at q (c :: r) = ([], Some r).
Proof. intros H. cbn. rewrite H. reflexivity. Qed.

(** ** character classes *)
Definition is_dot (c : N) : bool := c =? 46.

Lemma digit_not_e c : is_digit c = true -> is_e c = false.
Proof. unfold is_digit, is_e. intros H. apply andb_true_iff in H as [H1 H2]. apply N.leb_le in H1, H2.
  apply orb_false_iff. split; apply N.eqb_neq; lia. Qed.

Lemma digit_not_dot c : is_digit c = true -> is_dot c = false.
Proof. unfold is_digit, is_dot. intros H. apply andb_true_iff in H as [H1 H2]. apply N.leb_le in H1, H2. apply N.eqb_neq; lia. Qed.

Lemma digit_not_sign c : is_digit c = true -> c <> 43 /\ c <> 45.
Proof. unfold is_digit. intros H. apply andb_true_iff in H as [H1 H2]. apply N.leb_le in H1, H2. lia. Qed.

Lemma dot_not_e : is_e 46 = false. Proof. reflexivity. Qed.

Lemma digits_no_e d : forallb is_digit d = true -> forallb (fun c => negb (is_e c)) d = true.
Proof. induction d as [|c r IH]; [reflexivity|]. cbn. intros H. apply andb_true_iff in H as [Hc Hr]. rewrite (digit_not_e c Hc), IH by exact Hr. reflexivity. Qed.

Lemma digits_no_dot d : forallb is_digit d = true -> forallb (fun c => negb (is_dot c)) d = true.
Proof. induction d as [|c r IH]; [reflexivity|]. cbn. intros H. apply andb_true_iff in H as [Hc Hr]. rewrite (digit_not_dot c Hc), IH by exact Hr. reflexivity. Qed.

Lemma all_digits_app a b : all_digits (a ++ b) = all_digits a && all_digits b.
Proof. apply forallb_app. Qed.

Lemma all_digits_head_false c r : is_digit c = false -> all_digits (c :: r) = false.
Proof. intros H. cbn. rewrite H. reflexivity. Qed.

(** ** the exponent part *)
(** what the specification makes of the text after the 'e' *)
Definition exp_of (e : str) : option Z :=
  let '(neg, ds) := match e with
                    | 45 :: r => (true, r)
                    | 43 :: r => (false, r)
                    | _ => (false, e)
                    end in
  if nonempty ds && all_digits ds then Some (if neg then (- digits_val ds)%Z else digits_val ds) else None.

(** the specification, with the mantissa/exponent split made explicit *)
Definition udv (mant : str) (exp : option str) : option f64 :=
  let '(ip, fp) := split_at is_dot mant in
  let fpd := match fp with Some f => f | None => [] end in
  let mant_ok := all_digits ip && all_digits fpd && (nonempty ip || nonempty fpd) in
  let exp_val := match exp with None => Some 0%Z | Some e => exp_of e end in
  match mant_ok, exp_val with
  | true, Some e => Some (dec_to_f64_pos (digits_val (ip ++ fpd)) (e - Z.of_nat (length fpd))%Z)
  | _, _ => None
  end.

Lemma unsigned_decimal_value_udv s :
  unsigned_decimal_value s = udv (fst (split_at is_e s)) (snd (split_at is_e s)).
Proof.
  unfold unsigned_decimal_value, udv, exp_of, is_dot.
  change (fun c => (c =? 101) || (c =? 69)) with is_e.
  destruct (split_at is_e s) as [mant exp]. cbn [fst snd].
  destruct (split_at (fun c => c =? 46) mant) as [ip fp].
  destruct exp as [e|]; [|reflexivity].
  destruct e as [|c r]; [reflexivity|].
  destruct c as [|p]; [reflexivity|].
  do 6 (try destruct p as [p|p|]); reflexivity.
Qed.

(** the scanner's view of the exponent: sign, digits, rest *)
Lemma nonempty_all_digits_take r :
  nonempty r && all_digits r = nonempty (take_while is_digit r) && match drop_while is_digit r with [] => true | _ => false end.
Proof.
  pose proof (take_drop is_digit r) as E. pose proof (take_while_all is_digit r) as A.
  pose proof (drop_while_head is_digit r) as Hd.
  destruct (drop_while is_digit r) as [|c R] eqn:ER.
  - rewrite app_nil_r in E. rewrite E in A |- *. unfold all_digits. rewrite A. reflexivity.
  - rewrite <- E at 1 2. unfold all_digits. rewrite forallb_app. cbn [forallb]. rewrite Hd.
    rewrite andb_false_r, andb_false_r, andb_false_r. reflexivity.
Qed.

(** the specification's reading of the exponent text, through the scanner's decomposition *)
Lemma exp_of_scan r :
  exp_of r =
  let '(eneg, _, eds, rest) := scan_exp r in
  match eds, rest with
  | _ :: _, [] => Some (if eneg then (- digits_val eds)%Z else digits_val eds)
  | _, _ => None
  end.
Proof.
  unfold exp_of, scan_exp, exp_sign.
  assert (K : forall (neg : bool) (ds : str),
             (if nonempty ds && all_digits ds then Some (if neg then (- digits_val ds)%Z else digits_val ds) else None) =
             match take_while is_digit ds, drop_while is_digit ds with
             | _ :: _, [] => Some (if neg then (- digits_val (take_while is_digit ds))%Z else digits_val (take_while is_digit ds))
             | _, _ => None
             end).
  { intros neg ds. rewrite nonempty_all_digits_take.
    pose proof (take_drop is_digit ds) as E.
    destruct (take_while is_digit ds) as [|d D]; [reflexivity|].
    destruct (drop_while is_digit ds); [|reflexivity].
    rewrite app_nil_r in E. rewrite <- E. reflexivity. }
  destruct r as [|c r']; [reflexivity|].
  destruct c as [|p].
  all: do 6 (try destruct p as [p|p|]).
  all: match goal with |- context [nonempty ?x] => first [exact (K false x) | exact (K true x)] end.
Qed.

(** the check "the literal is the whole string" *)
Definition whole (o : option dec_lit) (n : nat) : option f64 :=
  match o with
  | Some l => if Nat.eqb (dl_len l) n then Some (dec_lit_value l) else None
  | None => None
  end.

(** ** the specification on a mantissa that starts with integer digits *)
Lemma split_dot_digits D X : forallb is_digit D = true ->
  split_at is_dot (D ++ X) = (D ++ fst (split_at is_dot X), snd (split_at is_dot X)).
Proof. intros H. apply split_at_app, digits_no_dot, H. Qed.

Lemma split_e_digits D X : forallb is_digit D = true ->
  split_at is_e (D ++ X) = (D ++ fst (split_at is_e X), snd (split_at is_e X)).
Proof. intros H. apply split_at_app, digits_no_e, H. Qed.

Lemma length_app3 {A} (a : list A) c b : length (a ++ c :: b) = (length a + S (length b))%nat.
Proof. rewrite app_length. reflexivity. Qed.

(** a value with no exponent *)
Definition val0 (D1 D2 : str) : f64 :=
  dec_to_f64_pos (digits_val (D1 ++ D2)) (0 - Z.of_nat (length D2))%Z.
Definition vale (D1 D2 : str) (neg : bool) (D3 : str) : f64 :=
  dec_to_f64_pos (digits_val (D1 ++ D2)) ((if neg then (- digits_val D3)%Z else digits_val D3) - Z.of_nat (length D2))%Z.

(** udv on the mantissa shapes the scanner can produce *)
Lemma udv_int D1 x : forallb is_digit D1 = true ->
  udv D1 x = match D1, (match x with None => Some 0%Z | Some e => exp_of e end) with
             | _ :: _, Some e => Some (dec_to_f64_pos (digits_val (D1 ++ [])) (e - 0)%Z)
             | _, _ => None
             end.
Proof.
  intros H. unfold udv. rewrite (split_at_none is_dot D1) by (apply digits_no_dot, H).
  unfold all_digits. rewrite H. cbn [forallb andb length Z.of_nat nonempty orb].
  rewrite orb_false_r. destruct D1; reflexivity.
Qed.

Lemma udv_frac D1 D2 x : forallb is_digit D1 = true -> forallb is_digit D2 = true ->
  udv (D1 ++ 46 :: D2) x =
  match nonempty D1 || nonempty D2, (match x with None => Some 0%Z | Some e => exp_of e end) with
  | true, Some e => Some (dec_to_f64_pos (digits_val (D1 ++ D2)) (e - Z.of_nat (length D2))%Z)
  | _, _ => None
  end.
Proof.
  intros H1 H2. unfold udv. rewrite (split_dot_digits D1 (46 :: D2) H1).
  rewrite (split_at_hit is_dot 46 D2) by reflexivity. cbn [fst snd]. rewrite app_nil_r.
  unfold all_digits. rewrite H1, H2. reflexivity.
Qed.

(** a non-digit, non-dot character inside the mantissa makes it invalid *)
Lemma udv_bad_int D1 c m x : forallb is_digit D1 = true -> is_digit c = false -> is_dot c = false ->
  udv (D1 ++ c :: m) x = None.
Proof.
  intros H Hc Hd. unfold udv. rewrite (split_dot_digits D1 (c :: m) H).
  cbn [split_at]. rewrite Hd. destruct (split_at is_dot m) as [i f]. cbn [fst snd].
  unfold all_digits. rewrite forallb_app. cbn [forallb]. rewrite Hc, andb_false_r. reflexivity.
Qed.

Lemma udv_bad_frac D1 D2 c m x : forallb is_digit D1 = true -> forallb is_digit D2 = true -> is_digit c = false ->
  udv (D1 ++ 46 :: D2 ++ c :: m) x = None.
Proof.
  intros H1 H2 Hc. unfold udv. rewrite (split_dot_digits D1 (46 :: D2 ++ c :: m) H1).
  rewrite (split_at_hit is_dot 46) by reflexivity. cbn [fst snd]. rewrite app_nil_r.
  unfold all_digits. rewrite (forallb_app is_digit D2). cbn [forallb]. rewrite Hc.
  rewrite !andb_false_r. reflexivity.
Qed.

Lemma udv_dot_only m x : (match m with [] => True | c :: _ => is_digit c = false end) -> udv (46 :: m) x = None.
Proof.
  intros H. unfold udv. rewrite (split_at_hit is_dot 46) by reflexivity.
  destruct m as [|c r]; [reflexivity|]. unfold all_digits. cbn [forallb]. rewrite H. reflexivity.
Qed.

Lemma udv_empty x : udv [] x = None.
Proof. reflexivity. Qed.

Lemma exp_sign_len r : let '(neg, sl, r') := exp_sign r in length r = (sl + length r')%nat.
Proof.
  unfold exp_sign. destruct r as [|c r']; [reflexivity|]. destruct c as [|p]; [reflexivity|].
  do 6 (try destruct p as [p|p|]); reflexivity.
Qed.

Lemma scan_exp_len r eneg sl D3 R3 :
  scan_exp r = (eneg, sl, D3, R3) -> length r = (sl + length D3 + length R3)%nat.
Proof.
  unfold scan_exp. pose proof (exp_sign_len r) as L. destruct (exp_sign r) as [[neg sl'] r'].
  intros [= <- <- <- <-]. rewrite L, <- Nat.add_assoc, <- app_length, take_drop. reflexivity.
Qed.

(** the exponent, scanner and specification side by side *)
Lemma tail_exp (D1 D2 : str) (base : nat) (r : str) (v : bool -> str -> f64) :
  match D1, D2 with [], [] => False | _, _ => True end ->
  (forall neg D3, dec_lit_value (mk_lit D1 D2 (Some (neg, D3)) 0) = v neg D3) ->
  whole (let '(eneg, sl, eds, _) := scan_exp r in
         match eds with
         | [] => Some (mk_lit D1 D2 None base)
         | _ => Some (mk_lit D1 D2 (Some (eneg, eds)) (base + 1 + sl + length eds)%nat)
         end) (base + S (length r)) =
  match exp_of r with
  | Some _ => let '(eneg, _, eds, _) := scan_exp r in Some (v eneg eds)
  | None => None
  end.
Proof.
  intros Hne Hv. rewrite exp_of_scan.
  destruct (scan_exp r) as [[[eneg sl] D3] R3] eqn:E. pose proof (scan_exp_len r eneg sl D3 R3 E) as L.
  destruct D3 as [|d D3'].
  - cbn [whole mk_lit dl_len]. replace (Nat.eqb base (base + S (length r))) with false by (symmetry; apply Nat.eqb_neq; lia).
    reflexivity.
  - cbn [whole mk_lit dl_len]. destruct R3 as [|c R3'].
    + replace (Nat.eqb _ _) with true by (symmetry; apply Nat.eqb_eq; cbn [length] in *; lia).
      f_equal. rewrite <- Hv. reflexivity.
    + replace (Nat.eqb _ _) with false by (symmetry; apply Nat.eqb_neq; cbn [length] in *; lia). reflexivity.
Qed.

(** ** the core: scanner = specification on an unsigned literal *)
Lemma head_nondigit_cons c r : (match c :: r with [] => True | x :: _ => is_digit x = false end) -> is_digit c = false.
Proof. intros H; exact H. Qed.

Lemma split_e_nonE c r : is_e c = false ->
  split_at is_e (c :: r) = (c :: fst (split_at is_e r), snd (split_at is_e r)).
Proof. intros H. cbn [split_at]. rewrite H. destruct (split_at is_e r); reflexivity. Qed.

(** tail after an integer-only mantissa D1 (non-empty) *)
Lemma core_int D1 R2 :
  D1 <> [] -> forallb is_digit D1 = true ->
  (match R2 with [] => True | c :: _ => is_digit c = false /\ is_dot c = false end) ->
  whole (scan_tail D1 [] (length D1 + 0) R2) (length (D1 ++ R2)) = unsigned_decimal_value (D1 ++ R2).
Proof.
  intros Hne HD HR. rewrite unsigned_decimal_value_udv, (split_e_digits D1 R2 HD). cbn [fst snd].
  rewrite app_length, Nat.add_0_r.
  assert (Hlit : forall neg D3, dec_lit_value (mk_lit D1 [] (Some (neg, D3)) 0) =
                                dec_to_f64_pos (digits_val (D1 ++ [])) ((if neg then (- digits_val D3)%Z else digits_val D3) - 0)%Z).
  { intros neg D3. reflexivity. }
  assert (Hnn : match D1, @nil N with [], [] => False | _, _ => True end) by (destruct D1; [contradiction | exact I]).
  assert (Htail : forall R, scan_tail D1 [] (length D1) R =
                            match R with
                            | c :: r =>
                                if is_e c then
                                  let '(eneg, sl, eds, _) := scan_exp r in
                                  match eds with
                                  | [] => Some (mk_lit D1 [] None (length D1))
                                  | _ => Some (mk_lit D1 [] (Some (eneg, eds)) (length D1 + 1 + sl + length eds)%nat)
                                  end
                                else Some (mk_lit D1 [] None (length D1))
                            | [] => Some (mk_lit D1 [] None (length D1))
                            end).
  { intros R. unfold scan_tail. destruct D1; [contradiction | reflexivity]. }
  assert (Hudv : forall x, udv D1 x = match (match x with None => Some 0%Z | Some e => exp_of e end) with
                                       | Some e => Some (dec_to_f64_pos (digits_val (D1 ++ [])) (e - 0)%Z)
                                       | None => None
                                       end).
  { intros x. rewrite udv_int by exact HD. destruct D1; [contradiction | reflexivity]. }
  rewrite Htail.
  destruct R2 as [|c r].
  - cbn [split_at fst snd length]. rewrite app_nil_r, Nat.add_0_r, Hudv.
    cbn [whole mk_lit dl_len]. rewrite Nat.eqb_refl. reflexivity.
  - destruct HR as [Hc Hd].
    destruct (is_e c) eqn:Ec.
    + rewrite (split_at_hit is_e c r Ec). cbn [fst snd]. rewrite app_nil_r, Hudv. cbn [length].
      rewrite (tail_exp D1 [] (length D1) r _ Hnn Hlit).
      rewrite exp_of_scan. destruct (scan_exp r) as [[[eneg sl] D3] R3].
      destruct D3 as [|d3 D3']; [reflexivity|]. destruct R3; reflexivity.
    + rewrite (split_e_nonE c r Ec). cbn [fst snd]. rewrite udv_bad_int by assumption.
      cbn [whole mk_lit dl_len length].
      replace (Nat.eqb (length D1) (length D1 + S (length r))) with false by (symmetry; apply Nat.eqb_neq; lia).
      reflexivity.
Qed.

(** tail after a mantissa D1 . D2 (not both empty) *)
Lemma core_frac D1 D2 R2 :
  (nonempty D1 || nonempty D2 = true) -> forallb is_digit D1 = true -> forallb is_digit D2 = true ->
  (match R2 with [] => True | c :: _ => is_digit c = false end) ->
  whole (scan_tail D1 D2 (length D1 + S (length D2)) R2) (length (D1 ++ 46 :: D2 ++ R2)) =
  unsigned_decimal_value (D1 ++ 46 :: D2 ++ R2).
Proof.
  intros Hne H1 H2 HR. rewrite unsigned_decimal_value_udv.
  assert (HM : forallb is_digit D1 = true) by exact H1.
  assert (Esplit : split_at is_e (D1 ++ 46 :: D2 ++ R2) =
                   ((D1 ++ 46 :: D2) ++ fst (split_at is_e R2), snd (split_at is_e R2))).
  { replace (D1 ++ 46 :: D2 ++ R2) with ((D1 ++ 46 :: D2) ++ R2) by (rewrite <- app_assoc; reflexivity).
    apply split_at_app. rewrite forallb_app. cbn [forallb]. rewrite (digits_no_e D1 H1), (digits_no_e D2 H2). reflexivity. }
  rewrite Esplit. cbn [fst snd].
  assert (Hlen : length (D1 ++ 46 :: D2 ++ R2) = (length D1 + S (length D2) + length R2)%nat).
  { rewrite app_length. cbn [length]. rewrite app_length. lia. }
  rewrite Hlen.
  assert (Hnn : match D1, D2 with [], [] => False | _, _ => True end).
  { destruct D1, D2; try exact I. discriminate Hne. }
  assert (Hlit : forall neg D3, dec_lit_value (mk_lit D1 D2 (Some (neg, D3)) 0) =
                                dec_to_f64_pos (digits_val (D1 ++ D2)) ((if neg then (- digits_val D3)%Z else digits_val D3) - Z.of_nat (length D2))%Z).
  { intros neg D3. reflexivity. }
  assert (Htail : forall R, scan_tail D1 D2 (length D1 + S (length D2)) R =
                            match R with
                            | c :: r =>
                                if is_e c then
                                  let '(eneg, sl, eds, _) := scan_exp r in
                                  match eds with
                                  | [] => Some (mk_lit D1 D2 None (length D1 + S (length D2)))
                                  | _ => Some (mk_lit D1 D2 (Some (eneg, eds)) (length D1 + S (length D2) + 1 + sl + length eds)%nat)
                                  end
                                else Some (mk_lit D1 D2 None (length D1 + S (length D2)))
                            | [] => Some (mk_lit D1 D2 None (length D1 + S (length D2)))
                            end).
  { intros R. unfold scan_tail. destruct D1, D2; try reflexivity. contradiction. }
  rewrite Htail.
  destruct R2 as [|c r].
  - cbn [split_at fst snd length]. rewrite app_nil_r, Nat.add_0_r, udv_frac by assumption. rewrite Hne.
    cbn [whole mk_lit dl_len]. rewrite Nat.eqb_refl. reflexivity.
  - destruct (is_e c) eqn:Ec.
    + rewrite (split_at_hit is_e c r Ec). cbn [fst snd]. rewrite app_nil_r, udv_frac by assumption. rewrite Hne.
      cbn [length]. rewrite (tail_exp D1 D2 (length D1 + S (length D2)) r _ Hnn Hlit).
      rewrite exp_of_scan. destruct (scan_exp r) as [[[eneg sl] D3] R3].
      destruct D3 as [|d3 D3']; [reflexivity|]. destruct R3; reflexivity.
    + rewrite (split_e_nonE c r Ec). cbn [fst snd].
      replace ((D1 ++ 46 :: D2) ++ c :: fst (split_at is_e r)) with (D1 ++ 46 :: D2 ++ c :: fst (split_at is_e r))
        by (rewrite <- app_assoc; reflexivity).
      rewrite udv_bad_frac by assumption.
      cbn [whole mk_lit dl_len length].
      replace (Nat.eqb _ _) with false by (symmetry; apply Nat.eqb_neq; lia). reflexivity.
Qed.

Lemma scan_body_nodot D1 c r : c <> 46 -> scan_body D1 (c :: r) = scan_tail D1 [] (length D1 + 0) (c :: r).
Proof.
  intros H. unfold scan_body. destruct c as [|p]; [reflexivity|].
  do 6 (try destruct p as [p|p|]); try reflexivity. exfalso. apply H. reflexivity.
Qed.

Lemma fst_split_e_head r :
  (match r with [] => True | c :: _ => is_digit c = false end) ->
  match fst (split_at is_e r) with [] => True | c :: _ => is_digit c = false end.
Proof.
  destruct r as [|c r']; [intros; exact I|]. intros H. cbn [split_at]. destruct (is_e c); [exact I|].
  destruct (split_at is_e r'). exact H.
Qed.

Theorem core D1 R1 :
  forallb is_digit D1 = true -> (match R1 with [] => True | c :: _ => is_digit c = false end) ->
  whole (scan_body D1 R1) (length (D1 ++ R1)) = unsigned_decimal_value (D1 ++ R1).
Proof.
  intros HD HR. destruct R1 as [|c r].
  - (* digits only *)
    destruct D1 as [|d D1']; [reflexivity|].
    apply (core_int (d :: D1') []); [discriminate | exact HD | exact I].
  - destruct (N.eq_dec c 46) as [->|Hnd].
    + (* a dot after the integer digits *)
      pose proof (take_drop is_digit r) as Er. pose proof (take_while_all is_digit r) as HD2.
      pose proof (drop_while_head is_digit r) as HR2.
      unfold scan_body.
      set (D2 := take_while is_digit r) in *. set (R2 := drop_while is_digit r) in *.
      clearbody D2 R2. subst r.
      destruct D1 as [|d D1'], D2 as [|f F].
      * (* "." with no digit on either side *)
        cbn [scan_tail whole app].
        rewrite unsigned_decimal_value_udv, (split_e_nonE 46 R2 dot_not_e). cbn [fst snd].
        symmetry. apply udv_dot_only, fst_split_e_head. exact HR2.
      * apply (core_frac [] (f :: F) R2); [reflexivity | reflexivity | exact HD2 | exact HR2].
      * apply (core_frac (d :: D1') [] R2); [reflexivity | exact HD | reflexivity | exact HR2].
      * apply (core_frac (d :: D1') (f :: F) R2); [reflexivity | exact HD | exact HD2 | exact HR2].
    + rewrite (scan_body_nodot D1 c r Hnd).
      assert (Hdot : is_dot c = false) by (apply N.eqb_neq; exact Hnd).
      destruct D1 as [|d D1'].
      * (* no digit at all *)
        cbn [scan_tail whole app]. rewrite unsigned_decimal_value_udv.
        destruct (is_e c) eqn:Ec.
        -- rewrite (split_at_hit is_e c r Ec). reflexivity.
        -- rewrite (split_e_nonE c r Ec). cbn [fst snd]. symmetry.
           apply (udv_bad_int [] c (fst (split_at is_e r)) (snd (split_at is_e r))); [reflexivity | exact HR | exact Hdot].
      * apply (core_int (d :: D1') (c :: r)); [discriminate | exact HD | split; [exact HR | exact Hdot]].
Qed.

Corollary scan_whole u : whole (scan_unsigned_decimal u) (length u) = unsigned_decimal_value u.
Proof.
  unfold scan_unsigned_decimal. rewrite <- (take_drop is_digit u) at 3 4.
  apply core; [apply take_while_all | apply drop_while_head].
Qed.

(** ** Infinity, sign, and the whole StrDecimalLiteral *)
Lemma starts_with_app p u : starts_with p u = true -> exists rest, u = p ++ rest.
Proof.
  revert u. induction p as [|x p IH]; intros u H; [exists u; reflexivity|].
  destruct u as [|y u]; [discriminate|]. cbn in H. apply andb_true_iff in H as [Hxy Hr].
  apply N.eqb_eq in Hxy. subst y. destruct (IH u Hr) as [rest ->]. exists rest. reflexivity.
Qed.

Lemma starts_with_refl_app p rest : starts_with p (p ++ rest) = true.
Proof. induction p as [|x p IH]; [reflexivity|]. cbn. rewrite N.eqb_refl. exact IH. Qed.

Lemma str_eqb_app_self p rest : str_eqb (p ++ rest) p = match rest with [] => true | _ => false end.
Proof.
  induction p as [|x p IH]; [destruct rest; reflexivity|]. cbn. rewrite N.eqb_refl. exact IH.
Qed.

Lemma str_eqb_starts u p : str_eqb u p = true -> starts_with p u = true.
Proof. intros H. apply str_eqb_eq in H. subst. rewrite <- (app_nil_r p) at 2. apply starts_with_refl_app. Qed.

Lemma udv_starts_with_I rest : unsigned_decimal_value (s_Infinity ++ rest) = None.
Proof.
  change (s_Infinity ++ rest) with (73 :: (skipn 1 s_Infinity ++ rest)).
  rewrite unsigned_decimal_value_udv, (split_e_nonE 73 _ eq_refl). cbn [fst snd].
  apply (udv_bad_int [] 73); reflexivity.
Qed.

(** Lemma U: after the sign *)
Definition after_sign_m (u : str) : option (f64 * nat) :=
  if starts_with s_Infinity u then Some (S754_infinity false, 8%nat)
  else match scan_unsigned_decimal u with
       | None => None
       | Some l => Some (dec_lit_value l, dl_len l)
       end.

Definition after_sign_s (u : str) : option f64 :=
  if str_eqb u s_Infinity then Some (S754_infinity false) else unsigned_decimal_value u.

Lemma after_sign_eq u :
  match after_sign_m u with
  | Some (v, len) => if Nat.eqb len (length u) then Some v else None
  | None => None
  end = after_sign_s u.
Proof.
  unfold after_sign_m, after_sign_s.
  destruct (starts_with s_Infinity u) eqn:SW.
  - destruct (starts_with_app _ _ SW) as [rest ->]. rewrite str_eqb_app_self, app_length.
    destruct rest as [|c r].
    + reflexivity.
    + replace (Nat.eqb 8 (length s_Infinity + length (c :: r))) with false by (symmetry; apply Nat.eqb_neq; cbn; lia).
      symmetry. apply udv_starts_with_I.
  - destruct (str_eqb u s_Infinity) eqn:SE; [apply str_eqb_starts in SE; congruence|].
    rewrite <- scan_whole. unfold whole. destruct (scan_unsigned_decimal u); reflexivity.
Qed.

(** Lemma D: the whole decimal literal with its sign *)
Theorem decimal_prefix_whole s :
  match parse_decimal_prefix s with
  | Some (v, len) => if Nat.eqb len (length s) then Some v else None
  | None => None
  end = decimal_value s.
Proof.
  assert (K : forall (neg : bool) (sl : nat) (u : str),
             match (match after_sign_m u with
                    | None => None
                    | Some (mag, len) => Some (if neg then SFopp mag else mag, (sl + len)%nat)
                    end) with
             | Some (v, len) => if Nat.eqb len (sl + length u) then Some v else None
             | None => None
             end =
             match after_sign_s u with
             | Some m => Some (if neg then SFopp m else m)
             | None => None
             end).
  { intros neg sl u. rewrite <- after_sign_eq. destruct (after_sign_m u) as [[mag len]|]; [|reflexivity].
    replace (Nat.eqb (sl + len) (sl + length u)) with (Nat.eqb len (length u)).
    - destruct (Nat.eqb len (length u)); reflexivity.
    - destruct (Nat.eqb_spec len (length u)), (Nat.eqb_spec (sl + len) (sl + length u)); try reflexivity; lia. }
  unfold parse_decimal_prefix, decimal_value. fold (after_sign_m). 
  destruct s as [|c u].
  - exact (K false 0%nat []).
  - destruct c as [|p].
    + exact (K false 0%nat (0 :: u)).
    + do 6 (try destruct p as [p|p|]);
        first [ exact (K true 1%nat u) | exact (K false 1%nat u)
              | match goal with |- context [length (?x :: u)] => exact (K false 0%nat (x :: u)) end ].
Qed.

(** ** radix literals *)
Lemma radix_value_bad rdx ds : forall acc,
  forallb (fun d => match to_digit rdx d with Some _ => true | None => false end) ds = false ->
  radix_value rdx ds acc = None.
Proof.
  induction ds as [|c r IH]; intros acc H; [discriminate|]. cbn in *.
  destruct (to_digit rdx c); [apply IH; exact H | reflexivity].
Qed.

Lemma radix_digits_spec ds rdx :
  radix_digits_to_number ds rdx =
  if nonempty ds && forallb (fun d => match to_digit rdx d with Some _ => true | None => false end) ds
  then match radix_value rdx ds 0%Z with Some z => Some (f64_of_Z z) | None => None end
  else None.
Proof.
  unfold radix_digits_to_number. destruct ds as [|c r]; [reflexivity|]. cbn [nonempty andb].
  destruct (forallb _ (c :: r)) eqn:F; [reflexivity|]. rewrite radix_value_bad by exact F. reflexivity.
Qed.

(** ** C07/C09/C10: str_to_number is the specification's StringToNumber *)
Theorem str_to_number_spec s0 : str_to_number s0 = es_str_to_number s0.
Proof.
  unfold str_to_number, es_str_to_number. set (s := trim_both is_js_ws s0). clearbody s.
  destruct s as [|c1 r1]; [reflexivity|].
  assert (Dec : (match parse_decimal_prefix (c1 :: r1) with
                 | Some (v, len) => if Nat.eqb len (length (c1 :: r1)) then Some v else None
                 | None => None
                 end) = decimal_value (c1 :: r1)) by apply decimal_prefix_whole.
  destruct c1 as [|p]; [exact Dec|].
  do 6 (try destruct p as [p|p|]); try exact Dec.
  (* the first character is '0' *)
  destruct r1 as [|c ds]; [exact Dec|].
  cbn [radix_literal_value skipn].
  destruct ((c =? 120) || (c =? 88)); [apply radix_digits_spec|].
  destruct ((c =? 111) || (c =? 79)); [apply radix_digits_spec|].
  destruct ((c =? 98) || (c =? 66)); [apply radix_digits_spec|].
  exact Dec.
Qed.
