(** * Every operator function bound in the generated tables refines its specification;
      hence (Proofs/Refine.v) the model evaluator refines the reference semantics. *)
From Coq Require Import List ZArith NArith Bool Arith Lia.
From JL Require Import Base.Json Base.Lits Base.F64 Base.Str Base.Dec2Flt Base.Monad Model.JsOp Model.Ops Model.Table
                       Gen.OpTable Model.Eval.
From JL Require Import Spec.Specs Spec.OpSpecs Spec.RefEval.
From JL Require Import Proofs.MonadLaws Proofs.Meq Proofs.Truthy Proofs.OpsBasic Proofs.Compare Proofs.Arith Proofs.Data
                       Proofs.Refine.
Import ListNotations.
Local Open Scope list_scope.

Lemma meq_lift_ok (v : value) : meq (lift (Ok v)) (ret v).
Proof. apply meqA_ret. Qed.

Lemma meq_lift_same (o : outcome value) :
  (exists v, o = Ok v) \/ (exists e, o = Err e) -> meq (lift o) (lift o).
Proof. intros [[v ->]|[e ->]]; [apply meqA_ret | exact I]. Qed.

Lemma canonical_ok_err f : (exists v, canonical_num f = Ok v) \/ (exists e, canonical_num f = Err e).
Proof.
  unfold canonical_num. destruct (negb (is_finite f)); [right; eauto|].
  destruct (fits_64 f); left; eauto.
Qed.

Lemma arith_spec_ok_err o vs : (exists v, arith_spec o vs = Ok v) \/ (exists e, arith_spec o vs = Err e).
Proof. unfold arith_spec. destruct (arith_value o vs); [apply canonical_ok_err | right; eauto]. Qed.

Lemma in_spec_ok_err a b : (exists v, in_spec a b = Ok v) \/ (exists e, in_spec a b = Err e).
Proof. unfold in_spec. destruct b; eauto. destruct a; eauto. Qed.

Lemma substr_ok_err vs : (exists v, substr_op_spec vs = Ok v) \/ (exists e, substr_op_spec vs = Err e).
Proof.
  unfold substr_op_spec. destruct vs as [|a [|b [|c [|x r]]]]; eauto; destruct a; eauto.
  - destruct (int_operand b); eauto.
  - destruct (int_operand b), (int_operand c); eauto.
Qed.

Lemma var_ok_err d vs : (exists v, var_spec d vs = Ok v) \/ (exists e, var_spec d vs = Err e).
Proof.
  unfold var_spec. destruct vs as [|k r]; eauto.
  assert (H : (exists x, lookup_spec d k = Ok x) \/ (exists e, lookup_spec d k = Err e)).
  { destruct k; cbn [lookup_spec]; eauto. destruct (as_i64 n); eauto. destruct s; eauto. }
  destruct H as [[x ->]|[e ->]]; cbn [obind]; eauto. destruct x; eauto. destruct r; eauto.
Qed.

Lemma lookup_ok_err d k : (exists x, lookup_spec d k = Ok x) \/ (exists e, lookup_spec d k = Err e).
Proof. destruct k; cbn [lookup_spec]; eauto. destruct (as_i64 n); eauto. destruct s; eauto. Qed.

Lemma missing_keys_ok_err d keys : (exists m, missing_keys d keys = Ok m) \/ (exists e, missing_keys d keys = Err e).
Proof.
  induction keys as [|k r IH]; cbn [missing_keys]; eauto.
  destruct (lookup_ok_err d k) as [[x ->]|[e ->]]; cbn [obind]; eauto.
  destruct IH as [[m ->]|[e ->]]; cbn [obind]; eauto.
Qed.

Lemma missing_ok_err d vs : (exists v, missing_spec d vs = Ok v) \/ (exists e, missing_spec d vs = Err e).
Proof.
  unfold missing_spec. destruct (missing_keys_ok_err d (match vs with Arr l :: _ => l | _ => vs end)) as [[m ->]|[e ->]];
    cbn [obind]; eauto.
Qed.

Lemma missing_some_ok_err d need keys :
  (exists v, missing_some_spec d need keys = Ok v) \/ (exists e, missing_some_spec d need keys = Err e).
Proof.
  unfold missing_some_spec. destruct (missing_keys d keys); match goal with |- context [if ?c then _ else _] => destruct c end; eauto.
Qed.

Section OpsCorrect.
  (** the two string-scanner lemmas (Proofs/Scan.v) *)
  Hypothesis str_num : forall s, str_to_number s = es_str_to_number s.
  Hypothesis pf_str : forall s, parse_float_string s = es_parse_float_str s.

  Ltac name_is H := vm_compute in H; injection H as <-.

  Theorem eager_correct :
    forall e o, In e eager_table -> name_of (e_key e) = Some o ->
      forall d vs, documented o (length vs) = true -> meq (e_fn e vs) (eager_spec o d vs).
  Proof.
    intros e o He N d vs Hdoc.
    repeat (destruct He as [<- | He]); try contradiction; name_is N; cbn [e_fn] in *; unfold pure.
    - (* == *) destruct vs as [|a [|b [|c r]]]; try discriminate Hdoc. cbn [eager_spec].
      change (op_abstract_eq [a; b]) with (Ok (Bool (abstract_eq a b))). rewrite (abstract_eq_spec str_num). apply meqA_ret.
    - (* != *) destruct vs as [|a [|b [|c r]]]; try discriminate Hdoc. cbn [eager_spec].
      change (op_abstract_ne [a; b]) with (Ok (Bool (abstract_ne a b))). rewrite (abstract_ne_spec str_num). apply meqA_ret.
    - (* === *) destruct vs as [|a [|b [|c r]]]; try discriminate Hdoc. apply meqA_ret.
    - (* !== *) destruct vs as [|a [|b [|c r]]]; try discriminate Hdoc. apply meqA_ret.
    - (* ! *) destruct vs as [|a [|b r]]; try discriminate Hdoc. cbn [eager_spec].
      change (op_not [a]) with (Ok (Bool (negb (truthy a)))). rewrite truthy_eq. apply meqA_ret.
    - (* !! *) destruct vs as [|a [|b r]]; try discriminate Hdoc. cbn [eager_spec].
      change (op_double_not [a]) with (Ok (Bool (truthy a))). rewrite truthy_eq. apply meqA_ret.
    - (* < *) destruct vs as [|a [|b [|c [|x r]]]]; try discriminate Hdoc; cbn [eager_spec rel_spec].
      + change (op_lt [a; b]) with (Ok (Bool (abstract_lt a b))). rewrite (abstract_lt_spec str_num). apply meqA_ret.
      + change (op_lt [a; b; c]) with (if abstract_lt a b then Ok (Bool (abstract_lt b c)) else Ok (Bool false)).
        rewrite !(abstract_lt_spec str_num). destruct (es_lt a b); apply meqA_ret.
    - (* <= *) destruct vs as [|a [|b [|c [|x r]]]]; try discriminate Hdoc; cbn [eager_spec rel_spec].
      + change (op_lte [a; b]) with (Ok (Bool (abstract_lte a b))). rewrite (abstract_lte_spec str_num). apply meqA_ret.
      + change (op_lte [a; b; c]) with (if abstract_lte a b then Ok (Bool (abstract_lte b c)) else Ok (Bool false)).
        rewrite !(abstract_lte_spec str_num). destruct (es_le a b); apply meqA_ret.
    - (* > *) destruct vs as [|a [|b [|c [|x r]]]]; try discriminate Hdoc; cbn [eager_spec rel_spec].
      + change (op_gt [a; b]) with (Ok (Bool (abstract_gt a b))). rewrite (abstract_gt_spec str_num). apply meqA_ret.
      + change (op_gt [a; b; c]) with (if abstract_gt a b then Ok (Bool (abstract_gt b c)) else Ok (Bool false)).
        rewrite !(abstract_gt_spec str_num). destruct (es_lt b a); apply meqA_ret.
    - (* >= *) destruct vs as [|a [|b [|c [|x r]]]]; try discriminate Hdoc; cbn [eager_spec rel_spec].
      + change (op_gte [a; b]) with (Ok (Bool (abstract_gte a b))). rewrite (abstract_gte_spec str_num). apply meqA_ret.
      + change (op_gte [a; b; c]) with (if abstract_gte a b then Ok (Bool (abstract_gte b c)) else Ok (Bool false)).
        rewrite !(abstract_gte_spec str_num). destruct (es_le b a); apply meqA_ret.
    - (* + *) cbn [eager_spec]. rewrite (op_add_spec pf_str). apply meq_lift_same, arith_spec_ok_err.
    - (* - *) cbn [eager_spec]. rewrite (op_minus_spec str_num).
      + destruct vs as [|a [|b r]]; apply meq_lift_same, arith_spec_ok_err.
      + destruct vs as [|a [|b [|c r]]]; try discriminate Hdoc; auto.
    - (* * *) cbn [eager_spec]. rewrite (op_mul_spec pf_str).
      destruct vs; apply meq_lift_same, arith_spec_ok_err.
    - (* / *) destruct vs as [|a [|b [|c r]]]; try discriminate Hdoc. cbn [eager_spec].
      rewrite (op_div_spec str_num). apply meq_lift_same, arith_spec_ok_err.
    - (* % *) destruct vs as [|a [|b [|c r]]]; try discriminate Hdoc. cbn [eager_spec].
      rewrite (op_mod_spec str_num). apply meq_lift_same, arith_spec_ok_err.
    - (* max *) cbn [eager_spec]. rewrite (op_max_spec str_num). destruct vs; apply meq_lift_same, arith_spec_ok_err.
    - (* min *) cbn [eager_spec]. rewrite (op_min_spec str_num). destruct vs; apply meq_lift_same, arith_spec_ok_err.
    - (* merge *) cbn [eager_spec]. rewrite op_merge_spec. apply meqA_ret.
    - (* in *) destruct vs as [|a [|b [|c r]]]; try discriminate Hdoc. cbn [eager_spec].
      rewrite op_in_spec. apply meq_lift_same, in_spec_ok_err.
    - (* cat *) cbn [eager_spec]. rewrite op_cat_spec. apply meqA_ret.
    - (* substr *) cbn [eager_spec]. rewrite op_substr_spec.
      + destruct vs; apply meq_lift_same, substr_ok_err.
      + destruct vs as [|a [|b [|c [|x r]]]]; try discriminate Hdoc; auto.
    - (* log *) destruct vs as [|a [|b r]]; try discriminate Hdoc. cbn [eager_spec]. split; reflexivity.
  Qed.

  Theorem data_correct :
    forall e o, In e data_table -> name_of (d_key e) = Some o ->
      forall d vs, documented o (length vs) = true -> meq (lift (d_fn e d vs)) (eager_spec o d vs).
  Proof.
    intros e o He N d vs Hdoc.
    repeat (destruct He as [<- | He]); try contradiction; name_is N; cbn [d_fn] in *.
    - (* var *) cbn [eager_spec]. rewrite op_var_spec.
      + destruct vs; apply meq_lift_same, var_ok_err.
      + destruct vs as [|a [|b [|c r]]]; try discriminate Hdoc; simpl; lia.
    - (* missing *) cbn [eager_spec]. rewrite op_missing_spec. destruct vs; apply meq_lift_same, missing_ok_err.
    - (* missing_some *) destruct vs as [|a [|b [|c r]]]; try discriminate Hdoc.
      rewrite op_missing_some_spec. cbn [eager_spec].
      destruct a; try exact I. destruct b; try (destruct (as_u64 n); exact I).
      destruct (as_u64 n); [apply meq_lift_same, missing_some_ok_err | exact I].
  Qed.

  (** C04: for every rule and data, with a fuel above the rule's nesting depth, the model of the
      implementation computes what the single-pass reference semantics computes. *)
  Theorem model_refines_reference :
    forall n r d, vdepth r < n -> meq (apply_fuel n r d) (ref_eval r d).
  Proof. exact (refine eager_correct data_correct). Qed.
End OpsCorrect.
