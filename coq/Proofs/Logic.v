(** * C05: the fold-based if / or / and of the model are the recursive specifications,
      for every parser P and evaluator E plugged in. *)
From Coq Require Import List Bool Arith Lia.
From JL Require Import Base.Json Base.Monad Model.Ops Spec.Specs Spec.OpSpecs.
From JL Require Import Proofs.MonadLaws Proofs.Truthy.
Import ListNotations.
Local Open Scope m_scope.

Section Logic.
  Variable parsed : Type.
  Variable P : value -> outcome parsed.
  Variable E : parsed -> value -> M value.
  Notation ev := (pe parsed P E).

  (** ** or / and: one step of the fold, with the stopping polarity as a parameter *)
  Definition sstep (stop : bool) (d : value) (last : acc3) (cur : value) : M acc3 :=
    match last with
    | Decided _ => ret last
    | _ => do e <- ev cur d; if Bool.eqb (truthy_spec e) stop then ret (Decided e) else ret (Current e)
    end.

  Definition finish (r : acc3) : M value :=
    match r with
    | Decided v | Current v => ret v
    | Uninit => fail UnexpectedError
    end.

  Lemma or_unfold d args :
    or_ parsed P E d args = do r <- foldlM (sstep true d) args Uninit; finish r.
  Proof.
    unfold or_.
    rewrite (fold_left_bind (fun last cur => match last with
                                             | Decided _ => ret last
                                             | _ => do e <- ev cur d; if truthy e then ret (Decided e) else ret (Current e)
                                             end) args (ret Uninit)).
    rewrite bind_ret_l. f_equal.
    apply foldlM_ext. intros s x. unfold sstep. destruct s; try reflexivity;
      apply bind_ext; intros e; rewrite truthy_eq; destruct (truthy_spec e); reflexivity.
  Qed.

  Lemma and_unfold d args :
    and_ parsed P E d args = do r <- foldlM (sstep false d) args Uninit; finish r.
  Proof.
    unfold and_.
    rewrite (fold_left_bind (fun last cur => match last with
                                             | Decided _ => ret last
                                             | _ => do e <- ev cur d; if negb (truthy e) then ret (Decided e) else ret (Current e)
                                             end) args (ret Uninit)).
    rewrite bind_ret_l. f_equal.
    apply foldlM_ext. intros s x. unfold sstep. destruct s; try reflexivity;
      apply bind_ext; intros e; rewrite truthy_eq; destruct (truthy_spec e); reflexivity.
  Qed.

  (** the specification, with the stopping polarity as a parameter *)
  Fixpoint short_spec (stop : bool) (d : value) (args : list value) : M value :=
    match args with
    | [] => fail UnexpectedError
    | [a] => ev a d
    | a :: rest => do v <- ev a d; if Bool.eqb (truthy_spec v) stop then ret v else short_spec stop d rest
    end.

  Lemma or_spec_short d args : or_spec ev d args = short_spec true d args.
  Proof.
    induction args as [|a r IH]; [reflexivity|]. destruct r as [|b r]; [reflexivity|].
    cbn [or_spec short_spec]. apply bind_ext. intros v. destruct (truthy_spec v); simpl; [reflexivity | exact IH].
  Qed.

  Lemma and_spec_short d args : and_spec ev d args = short_spec false d args.
  Proof.
    induction args as [|a r IH]; [reflexivity|]. destruct r as [|b r]; [reflexivity|].
    cbn [and_spec short_spec]. apply bind_ext. intros v. destruct (truthy_spec v); simpl; [exact IH | reflexivity].
  Qed.

  (** once decided, the remaining operands are inert *)
  Lemma sfold_decided stop d args v :
    (do r <- foldlM (sstep stop d) args (Decided v); finish r) = ret v.
  Proof.
    induction args as [|a r IH]; [reflexivity|].
    cbn [foldlM sstep]. rewrite bind_ret_l. exact IH.
  Qed.

  Lemma sfold_current stop d args c :
    (do r <- foldlM (sstep stop d) args (Current c); finish r) =
    match args with [] => ret c | _ => short_spec stop d args end.
  Proof.
    revert c. induction args as [|a r IH]; intros c; cbn [foldlM]; [reflexivity|].
    unfold sstep at 1. rewrite !bind_assoc.
    destruct r as [|b r'].
    - cbn [short_spec]. rewrite <- (bind_ret_r (ev a d)) at 2. apply bind_ext. intros e.
      rewrite bind_if, !bind_ret_l. cbn [foldlM]. rewrite !bind_ret_l. simpl. apply if_same.
    - cbn [short_spec]. apply bind_ext. intros e. rewrite bind_if, !bind_ret_l.
      destruct (Bool.eqb (truthy_spec e) stop).
      + apply sfold_decided.
      + apply (IH e).
  Qed.

  Lemma sfold_uninit stop d args :
    (do r <- foldlM (sstep stop d) args Uninit; finish r) = short_spec stop d args.
  Proof.
    destruct args as [|a r]; [reflexivity|]. cbn [foldlM]. unfold sstep at 1. rewrite !bind_assoc.
    destruct r as [|b r'].
    - cbn [short_spec]. rewrite <- (bind_ret_r (ev a d)) at 2. apply bind_ext. intros e.
      rewrite bind_if, !bind_ret_l. cbn [foldlM]. rewrite !bind_ret_l. simpl. apply if_same.
    - cbn [short_spec]. apply bind_ext. intros e. rewrite bind_if, !bind_ret_l.
      destruct (Bool.eqb (truthy_spec e) stop).
      + apply sfold_decided.
      + apply (sfold_current stop d (b :: r') e).
  Qed.

  Theorem or_is_spec d args : or_ parsed P E d args = or_spec ev d args.
  Proof. rewrite or_unfold, sfold_uninit, or_spec_short. reflexivity. Qed.

  Theorem and_is_spec d args : and_ parsed P E d args = and_spec ev d args.
  Proof. rewrite and_unfold, sfold_uninit, and_spec_short. reflexivity. Qed.

  (** ** if: the fold carries (last value, was truthy, should return) and the index parity *)
  Definition istep (d : value) (i : nat) (st : value * bool * bool) (val : value) : M (value * bool * bool) :=
    let '(last_eval, was_truthy, should_return) := st in
    if should_return then ret (last_eval, was_truthy, should_return)
    else if Nat.even i then do e <- ev val d; ret (e, truthy_spec e, false)
    else if was_truthy then do t <- ev val d; ret (t, true, true)
    else ret (Null, was_truthy, should_return).

  Definition first3 (st : value * bool * bool) : M value := ret (fst (fst st)).

  Lemma if_unfold d a b rest :
    if_ parsed P E d (a :: b :: rest) =
    do st <- foldlM_i (istep d) (a :: b :: rest) 0 (Null, false, false); first3 st.
  Proof.
    unfold if_.
    assert (H : forall args acc i,
               fst (fold_left (if_step parsed P E d) args (acc, i)) =
               bind acc (fun st => foldlM_i (istep d) args i st)).
    { intros args acc i.
      rewrite <- (fold_left_bind_i (istep d) args acc i). f_equal.
      revert acc i. induction args as [|x r IH]; intros acc i; [reflexivity|].
      cbn [fold_left]. rewrite <- IH. f_equal. unfold if_step. f_equal.
      apply bind_ext. intros [[l w] s]. unfold istep.
      destruct s; [reflexivity|]. destruct (Nat.even i).
      - apply bind_ext. intros e. rewrite truthy_eq. reflexivity.
      - reflexivity. }
    rewrite H. rewrite bind_ret_l. reflexivity.
  Qed.

  Lemma ifold_done d args i l w :
    (do st <- foldlM_i (istep d) args i (l, w, true); first3 st) = ret l.
  Proof.
    revert i. induction args as [|a r IH]; intros i; [reflexivity|].
    cbn [foldlM_i istep]. rewrite bind_ret_l. apply IH.
  Qed.

  (** the fold's result when started at an even index with nothing decided *)
  Fixpoint if_tail (d : value) (args : list value) (last : value) : M value :=
    match args with
    | [] => ret last
    | [a] => ev a d
    | c :: b :: rest => do v <- ev c d; if truthy_spec v then ev b d else if_tail d rest Null
    end.

  Lemma ifold_even d args :
    forall i last w, Nat.even i = true ->
      (do st <- foldlM_i (istep d) args i (last, w, false); first3 st) = if_tail d args last.
  Proof.
    induction args as [|c|c b rest IH] using list_ind2; intros i last w Hi.
    - reflexivity.
    - cbn [foldlM_i]. unfold istep at 1. rewrite Hi. rewrite !bind_assoc. cbn [if_tail].
      rewrite <- (bind_ret_r (ev c d)) at 2. apply bind_ext. intros e.
      rewrite !bind_ret_l. reflexivity.
    - cbn [foldlM_i]. unfold istep at 1. rewrite Hi. rewrite !bind_assoc. cbn [if_tail].
      apply bind_ext. intros e. rewrite !bind_ret_l.
      assert (Hodd : Nat.even (S i) = false) by (rewrite Nat.even_succ, <- Nat.negb_even, Hi; reflexivity).
      unfold istep at 1. rewrite Hodd.
      destruct (truthy_spec e).
      + rewrite !bind_assoc. rewrite <- (bind_ret_r (ev b d)) at 2. apply bind_ext. intros t.
        rewrite bind_ret_l. apply ifold_done.
      + rewrite bind_ret_l. apply IH.
        rewrite Nat.even_succ, <- Nat.negb_even, Hodd. reflexivity.
  Qed.

  Lemma if_tail_spec d args : args <> [] -> if_tail d args Null = if_spec ev d args.
  Proof.
    induction args as [|c|c b rest IH] using list_ind2; intros Hne.
    - contradiction.
    - reflexivity.
    - cbn [if_tail if_spec]. apply bind_ext. intros v. destruct (truthy_spec v); [reflexivity|].
      destruct rest as [|x rest']; [reflexivity|]. apply IH. discriminate.
  Qed.

  Theorem if_is_spec d args : if_ parsed P E d args = if_spec ev d args.
  Proof.
    destruct args as [|a [|b rest]]; [reflexivity | reflexivity |].
    rewrite if_unfold, ifold_even by reflexivity. apply if_tail_spec. discriminate.
  Qed.

  (** ** Independence: what follows the deciding operand does not matter (no trace involved) *)
  Corollary if_ignores_rest d c b rest rest' t v :
    ev c d = (t, Ok v) -> truthy_spec v = true ->
    if_ parsed P E d (c :: b :: rest) = if_ parsed P E d (c :: b :: rest').
  Proof. intros Hc Hv. rewrite !if_is_spec. cbn [if_spec]. rewrite Hc, !bind_ok, Hv. reflexivity. Qed.

  Corollary if_skips_untaken_branch d c b b' rest t v :
    ev c d = (t, Ok v) -> truthy_spec v = false ->
    if_ parsed P E d (c :: b :: rest) = if_ parsed P E d (c :: b' :: rest).
  Proof. intros Hc Hv. rewrite !if_is_spec. cbn [if_spec]. rewrite Hc, !bind_ok, Hv. reflexivity. Qed.

  Corollary or_ignores_rest d a b rest b' rest' t v :
    ev a d = (t, Ok v) -> truthy_spec v = true ->
    or_ parsed P E d (a :: b :: rest) = or_ parsed P E d (a :: b' :: rest').
  Proof. intros Ha Hv. rewrite !or_is_spec. cbn [or_spec]. rewrite Ha, !bind_ok, Hv. reflexivity. Qed.

  Corollary and_ignores_rest d a b rest b' rest' t v :
    ev a d = (t, Ok v) -> truthy_spec v = false ->
    and_ parsed P E d (a :: b :: rest) = and_ parsed P E d (a :: b' :: rest').
  Proof. intros Ha Hv. rewrite !and_is_spec. cbn [and_spec]. rewrite Ha, !bind_ok, Hv. reflexivity. Qed.
End Logic.
