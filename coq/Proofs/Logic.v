(** * C05: the fold-based if / or / and of the model are the recursive specifications,
      for every parser P and evaluator E plugged in. *)
From Coq Require Import List Bool Arith Lia.
From JL Require Import Base.Json Base.Monad Model.Ops Spec.Specs Spec.OpSpecs.
From JL Require Import Proofs.MonadLaws Proofs.Truthy.
Import ListNotations.
Local Open Scope m_scope.

Section Logic.
  Variable parsed : Type.
  Variable P : value -> outcome parsed.
  Variable E : parsed -> value -> M value.
  Notation ev := (pe parsed P E).

  (** ** or / and *)
  Definition short_step (stop_on : bool) (data : value) :=
    fun (last_res : M acc3) (cur : value) =>
      do last <- last_res;
      match last with
      | Decided _ => ret last
      | _ => do e <- ev cur data;
             if Bool.eqb (truthy e) stop_on then ret (Decided e) else ret (Current e)
      end.

  Definition finish (r : acc3) : M value :=
    match r with
    | Decided v | Current v => ret v
    | Uninit => fail UnexpectedError
    end.

  Lemma or_unfold data args :
    or_ parsed P E data args = do r <- fold_left (short_step true data) args (ret Uninit); finish r.
  Proof.
    unfold or_, short_step, finish.
    assert (H : forall acc,
               fold_left (fun last_res cur => do last <- last_res;
                            match last with
                            | Decided _ => ret last
                            | _ => do e <- ev cur data; if truthy e then ret (Decided e) else ret (Current e)
                            end) args acc =
               fold_left (fun last_res cur => do last <- last_res;
                            match last with
                            | Decided _ => ret last
                            | _ => do e <- ev cur data; if Bool.eqb (truthy e) true then ret (Decided e) else ret (Current e)
                            end) args acc).
    { induction args as [|a r IH]; intros acc; simpl; [reflexivity|].
      rewrite IH. f_equal. apply bind_ext. intros last. destruct last; try reflexivity;
        apply bind_ext; intros e; destruct (truthy e); reflexivity. }
    rewrite H. reflexivity.
  Qed.

  Lemma and_unfold data args :
    and_ parsed P E data args = do r <- fold_left (short_step false data) args (ret Uninit); finish r.
  Proof.
    unfold and_, short_step, finish.
    assert (H : forall acc,
               fold_left (fun last_res cur => do last <- last_res;
                            match last with
                            | Decided _ => ret last
                            | _ => do e <- ev cur data; if negb (truthy e) then ret (Decided e) else ret (Current e)
                            end) args acc =
               fold_left (fun last_res cur => do last <- last_res;
                            match last with
                            | Decided _ => ret last
                            | _ => do e <- ev cur data; if Bool.eqb (truthy e) false then ret (Decided e) else ret (Current e)
                            end) args acc).
    { induction args as [|a r IH]; intros acc; simpl; [reflexivity|].
      rewrite IH. f_equal. apply bind_ext. intros last. destruct last; try reflexivity;
        apply bind_ext; intros e; destruct (truthy e); reflexivity. }
    rewrite H. reflexivity.
  Qed.

  (** once the fold has failed or decided, the remaining operands are inert *)
  Lemma short_fold_stuck stop data args t (o : outcome acc3) :
    stuck o -> fold_left (short_step stop data) args (t, o) = (t, o).
  Proof.
    revert t o. induction args as [|a r IH]; intros t o H; simpl; [reflexivity|].
    destruct o as [x|e| |]; simpl in *; try contradiction; apply IH; exact I.
  Qed.

  Lemma short_fold_decided stop data args t v :
    fold_left (short_step stop data) args (t, Ok (Decided v)) = (t, Ok (Decided v)).
  Proof.
    revert t. induction args as [|a r IH]; intros t; simpl; [reflexivity|].
    unfold short_step at 2. simpl. rewrite app_nil_r. apply IH.
  Qed.

  (** the specification, with the stopping polarity as a parameter *)
  Fixpoint short_spec (stop : bool) (d : value) (args : list value) : M value :=
    match args with
    | [] => fail UnexpectedError
    | [a] => ev a d
    | a :: rest => do v <- ev a d; if Bool.eqb (truthy_spec v) stop then ret v else short_spec stop d rest
    end.

  Lemma or_spec_short d args : or_spec ev d args = short_spec true d args.
  Proof.
    induction args as [|a r IH]; [reflexivity|]. destruct r as [|b r]; [reflexivity|].
    cbn [or_spec short_spec]. apply bind_ext. intros v. destruct (truthy_spec v); simpl; [reflexivity | exact IH].
  Qed.

  Lemma and_spec_short d args : and_spec ev d args = short_spec false d args.
  Proof.
    induction args as [|a r IH]; [reflexivity|]. destruct r as [|b r]; [reflexivity|].
    cbn [and_spec short_spec]. apply bind_ext. intros v. destruct (truthy_spec v); simpl; [exact IH | reflexivity].
  Qed.

  Lemma short_fold_current stop d args t cur :
    bind (fold_left (short_step stop d) args (t, Ok (Current cur))) finish =
    match args with [] => (t, Ok cur) | _ => tapp t (short_spec stop d args) end.
  Proof.
    revert t cur. induction args as [|a r IH]; intros t cur.
    - simpl. rewrite app_nil_r. reflexivity.
    - cbn [fold_left]. unfold short_step at 2. rewrite bind_ok.
      destruct (ev a d) as [t1 [v|e| |]] eqn:Ea.
      + rewrite bind_ok. rewrite truthy_eq.
        destruct (Bool.eqb (truthy_spec v) stop) eqn:Et.
        * (* decided *)
          unfold ret at 1. unfold tapp at 1 2. simpl fst. simpl snd. rewrite app_nil_r.
          rewrite short_fold_decided. simpl. rewrite app_nil_r.
          destruct r as [|b r]; cbn [short_spec]; rewrite Ea.
          -- reflexivity.
          -- rewrite bind_ok, Et. unfold tapp; simpl. rewrite app_nil_r. reflexivity.
        * unfold ret at 1. unfold tapp at 1 2. simpl fst. simpl snd. rewrite app_nil_r.
          rewrite IH.
          destruct r as [|b r]; cbn [short_spec]; rewrite Ea.
          -- reflexivity.
          -- rewrite bind_ok, Et. rewrite tapp_tapp. reflexivity.
      + rewrite bind_err. unfold tapp; simpl. rewrite short_fold_stuck by exact I. simpl.
        destruct r as [|b r]; cbn [short_spec]; rewrite Ea; reflexivity.
      + rewrite bind_panic. unfold tapp; simpl. rewrite short_fold_stuck by exact I. simpl.
        destruct r as [|b r]; cbn [short_spec]; rewrite Ea; reflexivity.
      + rewrite bind_fuel. unfold tapp; simpl. rewrite short_fold_stuck by exact I. simpl.
        destruct r as [|b r]; cbn [short_spec]; rewrite Ea; reflexivity.
  Qed.

  Lemma short_fold_uninit stop d args :
    bind (fold_left (short_step stop d) args (ret Uninit)) finish = short_spec stop d args.
  Proof.
    destruct args as [|a r]; [reflexivity|].
    cbn [fold_left]. unfold short_step at 2. rewrite bind_ret_l.
    destruct (ev a d) as [t1 [v|e| |]] eqn:Ea.
    - rewrite bind_ok, truthy_eq.
      destruct (Bool.eqb (truthy_spec v) stop) eqn:Et.
      + unfold ret at 1. unfold tapp. simpl fst; simpl snd. rewrite app_nil_r.
        rewrite short_fold_decided. simpl. rewrite app_nil_r.
        destruct r as [|b r]; cbn [short_spec]; rewrite Ea; [reflexivity|].
        rewrite bind_ok, Et. unfold tapp; simpl. rewrite app_nil_r. reflexivity.
      + unfold ret at 1. unfold tapp. simpl fst; simpl snd. rewrite app_nil_r.
        rewrite short_fold_current.
        destruct r as [|b r]; cbn [short_spec]; rewrite Ea; [reflexivity|].
        rewrite bind_ok, Et. reflexivity.
    - rewrite bind_err, short_fold_stuck by exact I. simpl.
      destruct r as [|b r]; cbn [short_spec]; rewrite Ea; reflexivity.
    - rewrite bind_panic, short_fold_stuck by exact I. simpl.
      destruct r as [|b r]; cbn [short_spec]; rewrite Ea; reflexivity.
    - rewrite bind_fuel, short_fold_stuck by exact I. simpl.
      destruct r as [|b r]; cbn [short_spec]; rewrite Ea; reflexivity.
  Qed.

  Theorem or_is_spec d args : or_ parsed P E d args = or_spec ev d args.
  Proof. rewrite or_unfold, short_fold_uninit, or_spec_short. reflexivity. Qed.

  Theorem and_is_spec d args : and_ parsed P E d args = and_spec ev d args.
  Proof. rewrite and_unfold, short_fold_uninit, and_spec_short. reflexivity. Qed.

  (** ** if: the fold carries (last value, was truthy, should return) and the index parity *)
  Notation istep := (if_step parsed P E).

  Lemma if_fold_stuck d args t (o : outcome (value * bool * bool)) i :
    stuck o -> fst (fold_left (istep d) args ((t, o), i)) = (t, o).
  Proof.
    revert t o i. induction args as [|a r IH]; intros t o i H; simpl; [reflexivity|].
    destruct o as [x|e| |]; simpl in *; try contradiction; apply IH; exact I.
  Qed.

  Lemma if_fold_done d args t v w i :
    fst (fold_left (istep d) args ((t, Ok (v, w, true)), i)) = (t, Ok (v, w, true)).
  Proof.
    revert t i. induction args as [|a r IH]; intros t i; simpl; [reflexivity|].
    rewrite app_nil_r. apply IH.
  Qed.

  Definition first3 (m : M (value * bool * bool)) : M value := do st <- m; ret (fst (fst st)).

  (** from an even position, with nothing decided: the fold computes if_spec (on >= 1 operands,
      where a lone trailing operand is the else-value) *)
  Fixpoint if_tail (d : value) (args : list value) (last : value) : M value :=
    (* the fold's result when started at an even index with last value [last] *)
    match args with
    | [] => ret last
    | [a] => ev a d
    | c :: b :: rest => do v <- ev c d; if truthy_spec v then ev b d else if_tail d rest Null
    end.

  Lemma if_fold_even d args t last w i :
    Nat.even i = true ->
    first3 (fst (fold_left (istep d) args ((t, Ok (last, w, false)), i))) = tapp t (if_tail d args last).
  Proof.
    revert t last w i.
    induction args as [|c [|b rest] IH] using (well_founded_induction
      (wf_inverse_image _ nat _ (@length value) PeanoNat.Nat.lt_wf_0)).
    all: intros t last w i Hi.
    - simpl. unfold first3. rewrite bind_ok. unfold tapp, ret; simpl. reflexivity.
    - (* one operand left, at an even index *)
      cbn [fold_left]. unfold if_step at 1. rewrite Hi.
      cbn [fst]. rewrite bind_ok. cbn [if_tail].
      destruct (ev c d) as [t1 [v|e| |]]; unfold first3.
      + rewrite bind_ok. unfold ret, tapp, bind; simpl. rewrite !app_nil_r. reflexivity.
      + reflexivity.
      + reflexivity.
      + reflexivity.
    - (* a condition and its branch *)
      cbn [fold_left]. unfold if_step at 2. rewrite Hi. cbn [fst].
      rewrite bind_ok. cbn [if_tail].
      destruct (ev c d) as [t1 [v|e| |]] eqn:Ec.
      + rewrite bind_ok. unfold ret at 1. unfold tapp at 1 2. simpl fst; simpl snd. rewrite app_nil_r.
        unfold if_step at 1.
        assert (Hodd : Nat.even (S i) = false).
        { rewrite Nat.even_succ. rewrite <- Nat.negb_even. rewrite Hi. reflexivity. }
        rewrite Hodd. rewrite bind_ok. rewrite truthy_eq.
        destruct (truthy_spec v) eqn:Tv.
        * destruct (ev b d) as [t2 [x|e| |]] eqn:Eb.
          -- rewrite bind_ok. unfold ret at 1. unfold tapp at 1 2 3. simpl fst; simpl snd. rewrite app_nil_r.
             rewrite if_fold_done. unfold first3. rewrite bind_ok. rewrite bind_ok.
             unfold tapp, ret; simpl. rewrite !app_nil_r, app_assoc. reflexivity.
          -- rewrite bind_err. unfold tapp at 1 2. simpl fst; simpl snd.
             rewrite if_fold_stuck by exact I. unfold first3. rewrite bind_ok. reflexivity.
          -- rewrite bind_panic. unfold tapp at 1 2. simpl fst; simpl snd.
             rewrite if_fold_stuck by exact I. unfold first3. rewrite bind_ok. reflexivity.
          -- rewrite bind_fuel. unfold tapp at 1 2. simpl fst; simpl snd.
             rewrite if_fold_stuck by exact I. unfold first3. rewrite bind_ok. reflexivity.
        * unfold ret at 1. unfold tapp at 1 2. simpl fst; simpl snd. rewrite app_nil_r.
          rewrite IH.
          -- rewrite bind_ok. rewrite tapp_tapp. reflexivity.
          -- simpl. lia.
          -- rewrite Nat.even_succ, <- Nat.negb_even, Hodd. reflexivity.
      + rewrite bind_err. unfold tapp at 1 2; simpl fst; simpl snd.
        unfold if_step at 1. simpl. rewrite if_fold_stuck by exact I. reflexivity.
      + rewrite bind_panic. unfold tapp at 1 2; simpl fst; simpl snd.
        unfold if_step at 1. simpl. rewrite if_fold_stuck by exact I. reflexivity.
      + rewrite bind_fuel. unfold tapp at 1 2; simpl fst; simpl snd.
        unfold if_step at 1. simpl. rewrite if_fold_stuck by exact I. reflexivity.
  Qed.

  Lemma if_tail_spec d args : args <> [] -> if_tail d args Null = if_spec ev d args.
  Proof.
    induction args as [|c [|b rest] IH] using (well_founded_induction
      (wf_inverse_image _ nat _ (@length value) PeanoNat.Nat.lt_wf_0)).
    all: intros Hne.
    - contradiction.
    - reflexivity.
    - cbn [if_tail if_spec]. apply bind_ext. intros v. destruct (truthy_spec v); [reflexivity|].
      destruct rest as [|x rest']; [reflexivity|]. apply IH; [simpl; lia | discriminate].
  Qed.

  Theorem if_is_spec d args : if_ parsed P E d args = if_spec ev d args.
  Proof.
    destruct args as [|a [|b rest]]; [reflexivity | reflexivity |].
    unfold if_.
    change (do st <- fst (fold_left (istep d) (a :: b :: rest) (ret (Null, false, false), 0)); ret (fst (fst st)))
      with (first3 (fst (fold_left (istep d) (a :: b :: rest) (([], Ok (Null, false, false)), 0)))).
    rewrite if_fold_even by reflexivity. rewrite tapp_nil. apply if_tail_spec. discriminate.
  Qed.

  (** ** Independence: what follows the deciding operand does not matter (no trace involved) *)
  Corollary if_ignores_rest d c b rest rest' t v :
    ev c d = (t, Ok v) -> truthy_spec v = true ->
    if_ parsed P E d (c :: b :: rest) = if_ parsed P E d (c :: b :: rest').
  Proof. intros Hc Hv. rewrite !if_is_spec. cbn [if_spec]. rewrite Hc, !bind_ok, Hv. reflexivity. Qed.

  Corollary if_skips_untaken_branch d c b b' rest t v :
    ev c d = (t, Ok v) -> truthy_spec v = false ->
    if_ parsed P E d (c :: b :: rest) = if_ parsed P E d (c :: b' :: rest).
  Proof. intros Hc Hv. rewrite !if_is_spec. cbn [if_spec]. rewrite Hc, !bind_ok, Hv. reflexivity. Qed.

  Corollary or_ignores_rest d a b rest rest' t v :
    ev a d = (t, Ok v) -> truthy_spec v = true ->
    or_ parsed P E d (a :: b :: rest) = or_ parsed P E d (a :: rest').
  Proof.
    intros Ha Hv. rewrite !or_is_spec. cbn [or_spec]. rewrite Ha.
    destruct rest' as [|x r]; rewrite ?bind_ok, ?Hv; unfold tapp, ret; simpl; rewrite ?app_nil_r; reflexivity.
  Qed.

  Corollary and_ignores_rest d a b rest rest' t v :
    ev a d = (t, Ok v) -> truthy_spec v = false ->
    and_ parsed P E d (a :: b :: rest) = and_ parsed P E d (a :: rest').
  Proof.
    intros Ha Hv. rewrite !and_is_spec. cbn [and_spec]. rewrite Ha.
    destruct rest' as [|x r]; rewrite ?bind_ok, ?Hv; unfold tapp, ret; simpl; rewrite ?app_nil_r; reflexivity.
  Qed.
End Logic.
