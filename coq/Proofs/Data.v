(** * C11 / C12: var, missing, missing_some of the model against the specification. *)
From Coq Require Import List ZArith NArith Bool Arith Lia.
From JL Require Import Base.Json Base.Lits Base.Str Base.Monad Model.JsOp Model.Ops.
From JL Require Import Spec.Specs Spec.OpSpecs Spec.RefEval Proofs.MonadLaws.
Import ListNotations.
Local Open Scope m_scope.

(** ** indices *)
Lemma get_idx_spec {A} (l : list A) i : get_idx l i = index_spec l i.
Proof.
  unfold get_idx, index_spec. set (n := Z.of_nat (length l)).
  destruct (Z.leb_spec 0 i) as [Hi|Hi].
  - rewrite Z.abs_eq by lia. destruct (Z.ltb_spec i n); destruct (Z.leb_spec 0 i); try lia; simpl; reflexivity.
  - rewrite Z.abs_neq by lia.
    destruct (Z.leb_spec (- i) n) as [Hu|Hu].
    + destruct (Z.leb_spec 0 (n + i)); try lia. destruct (Z.ltb_spec (n + i) n); try lia. simpl.
      replace (n - - i)%Z with (n + i)%Z by lia. reflexivity.
    + destruct (Z.leb_spec 0 (n + i)); try lia. reflexivity.
Qed.

(** ** path splitting *)
Definition drop_empty_last (segs : list str) : list str :=
  match rev segs with
  | [] :: r => rev r
  | _ => segs
  end.

Lemma segments_nonempty ts cur : segments ts cur <> [].
Proof. revert cur. induction ts as [|[|c] r IH]; intros cur; cbn; [discriminate | discriminate | apply IH]. Qed.

Lemma drop_empty_last_cons a X : X <> [] -> drop_empty_last (a :: X) = a :: drop_empty_last X.
Proof.
  intros HX. unfold drop_empty_last. cbn [rev].
  destruct (rev X) as [|y ys] eqn:E.
  - exfalso. apply HX. rewrite <- (rev_involutive X), E. reflexivity.
  - cbn [app]. destruct y as [|c y']; [|reflexivity].
    rewrite rev_app_distr. reflexivity.
Qed.

Lemma split_go_spec input :
  forall slice result,
    split_go input false slice result = result ++ drop_empty_last (segments (tokenize input) slice) /\
    split_go input true slice result = result ++ drop_empty_last (segments (tokenize (92%N :: input)) slice).
Proof.
  induction input as [|c rest IH]; intros slice result.
  - cbn. destruct slice; cbn; rewrite ?app_nil_r; auto.
  - destruct (IH (slice ++ [c]) result) as [IHf _].
    split.
    + cbn [split_go tokenize].
      destruct (N.eqb_spec c 92) as [->|H92].
      * destruct (IH slice result) as [_ IHt]. exact IHt.
      * destruct (N.eqb_spec c 46) as [->|H46].
        -- destruct (IH [] (result ++ [slice])) as [IH0 _]. rewrite IH0.
           cbn [segments]. rewrite drop_empty_last_cons by apply segments_nonempty.
           rewrite <- app_assoc. reflexivity.
        -- cbn [segments]. exact IHf.
    + cbn [split_go]. change (tokenize (92%N :: c :: rest)) with (PLit c :: tokenize rest).
      cbn [segments]. exact IHf.
Qed.

Lemma split_with_escape_spec p : split_with_escape p = split_spec p.
Proof. unfold split_with_escape, split_spec. destruct (split_go_spec p [] []) as [H _]. exact H. Qed.

(** ** descent *)
Lemma get_step_spec v seg : get_step (Some v) seg = step_spec v seg.
Proof.
  destruct v; try reflexivity; cbn [get_step step_spec]; destruct (parse_i64 seg); try reflexivity;
    rewrite get_idx_spec; try reflexivity.
Qed.

Lemma fold_get_step_none segs : fold_left get_step segs None = None.
Proof. induction segs; [reflexivity | exact IHsegs]. Qed.

Lemma fold_get_step segs v : fold_left get_step segs (Some v) = resolve segs v.
Proof.
  revert v. induction segs as [|seg r IH]; intros v; [reflexivity|].
  cbn [fold_left resolve]. rewrite get_step_spec. destruct (step_spec v seg); [apply IH | apply fold_get_step_none].
Qed.

(** ** the decimal text of an integer is a single plain path segment *)
Definition plain (c : N) : bool := negb (c =? 92)%N && negb (c =? 46)%N.

Lemma split_go_plain s : forall slice result,
  forallb plain s = true -> slice ++ s <> [] -> split_go s false slice result = result ++ [slice ++ s].
Proof.
  induction s as [|c r IH]; intros slice result Hp Hne.
  - rewrite app_nil_r in *. cbn. destruct slice; [contradiction | reflexivity].
  - cbn [forallb] in Hp. apply andb_true_iff in Hp as [Hc Hr]. unfold plain in Hc.
    apply andb_true_iff in Hc as [H1 H2]. apply negb_true_iff in H1, H2.
    cbn [split_go]. rewrite H1, H2. rewrite IH; [| exact Hr | destruct slice; discriminate].
    rewrite <- app_assoc. reflexivity.
Qed.

Lemma digits_plain fuel : forall z acc, (0 <= z)%Z -> forallb plain acc = true -> forallb plain (pos_digits_fuel fuel z acc) = true.
Proof.
  induction fuel as [|n IH]; intros z acc Hz Ha; cbn [pos_digits_fuel]; [exact Ha|].
  assert (Hd : forall d, (0 <= d < 10)%Z -> plain (Z.to_N d + 48) = true).
  { intros d Hd. unfold plain. apply andb_true_iff. split; apply negb_true_iff, N.eqb_neq; lia. }
  destruct (Z.ltb_spec z 10).
  - cbn [forallb]. rewrite Hd by lia. exact Ha.
  - apply IH.
    + apply Z.div_pos; lia.
    + cbn [forallb]. rewrite Hd by (apply Z.mod_pos_bound; lia). exact Ha.
Qed.

Lemma digits_nonempty fuel : forall z acc, pos_digits_fuel (S fuel) z acc <> [].
Proof.
  induction fuel as [|n IH]; intros z acc; cbn [pos_digits_fuel].
  - destruct (z <? 10)%Z; discriminate.
  - destruct (z <? 10)%Z; [discriminate|]. apply (IH (z / 10)%Z).
Qed.

Lemma Z_text_plain i : forallb plain (Z_text i) = true /\ Z_text i <> [].
Proof.
  unfold Z_text, nat_text. destruct (Z.ltb_spec i 0).
  - split; [|discriminate]. cbn [forallb]. apply andb_true_iff. split; [reflexivity|].
    apply digits_plain; [lia | reflexivity].
  - split; [apply digits_plain; [lia | reflexivity] | apply digits_nonempty].
Qed.

Lemma split_Z_text i : split_with_escape (Z_text i) = [Z_text i].
Proof.
  destruct (Z_text_plain i) as [Hp Hne]. unfold split_with_escape.
  rewrite (split_go_plain (Z_text i) [] []); [reflexivity | exact Hp | exact Hne].
Qed.

(** ** get_key = lookup_spec *)
Lemma get_str_key_spec d p : p <> [] ->
  get_str_key d p = match d with Obj _ | Arr _ | Str _ => resolve (split_spec p) d | _ => None end.
Proof.
  intros Hp. unfold get_str_key. destruct p; [contradiction|].
  destruct d; try reflexivity; rewrite split_with_escape_spec; apply fold_get_step.
Qed.

Lemma get_key_spec d k key :
  key_of_value k = Ok key -> lookup_spec d k = Ok (get_key d key).
Proof.
  destruct k; cbn [key_of_value]; try discriminate.
  - intros [= <-]. reflexivity.
  - destruct (as_i64 n) as [i|] eqn:E; [|discriminate]. intros [= <-].
    cbn [lookup_spec get_key]. rewrite E.
    destruct d; try reflexivity.
    + rewrite get_idx_spec. destruct (index_spec s i); reflexivity.
    + rewrite get_idx_spec. reflexivity.
    + destruct (Z_text_plain i) as [_ Hne]. unfold get_str_key.
      destruct (Z_text i) eqn:Et; [contradiction|]. rewrite <- Et, split_Z_text. reflexivity.
  - intros [= <-]. cbn [lookup_spec get_key]. destruct s as [|c s']; [reflexivity|].
    rewrite get_str_key_spec by discriminate. reflexivity.
Qed.

Lemma key_invalid k e : key_of_value k = Err e -> forall d, lookup_spec d k = Err e.
Proof.
  destruct k; cbn [key_of_value lookup_spec]; try discriminate; intros H d.
  all: try (injection H as <-; reflexivity).
  destruct (as_i64 n); [discriminate | injection H as <-; reflexivity].
Qed.

Lemma key_of_value_ok_or_err k : (exists key, key_of_value k = Ok key) \/ (exists e, key_of_value k = Err e).
Proof. destruct k; cbn [key_of_value]; eauto. destruct (as_i64 n); eauto. Qed.

(** ** var *)
Lemma op_var_spec d args : length args <= 2 -> op_var d args = var_spec d args.
Proof.
  intros Hl. destruct args as [|k rest]; [reflexivity|].
  unfold op_var, var_spec. unfold idx; cbn [nth_error obind].
  destruct (key_of_value_ok_or_err k) as [[key Hk]|[e Hk]]; rewrite Hk; cbn [obind].
  - rewrite (get_key_spec d k key Hk). cbn [obind].
    destruct (get_key d key); [reflexivity|].
    destruct rest as [|dflt [|x r]]; reflexivity.
  - rewrite (key_invalid k e Hk). reflexivity.
Qed.

(** ** missing *)
Lemma ofold_err {A B} (f : outcome A -> B -> outcome A) (l : list B) (e : err) :
  (forall b, f (Err e) b = Err e) -> fold_left f l (Err e) = Err e.
Proof. intros H. induction l as [|x r IH]; [reflexivity|]. cbn [fold_left]. rewrite H. exact IH. Qed.

Definition mstep (d : value) (acc : outcome (list value)) (arg : value) : outcome (list value) :=
  doo m <- acc;
  doo key <- key_of_value arg;
  match key with
  | KNull => Ok m
  | _ => match get_key d key with
         | None => Ok (m ++ [arg])
         | Some _ => Ok m
         end
  end.

Lemma key_null k key : key_of_value k = Ok key -> (is_null k = true <-> key = KNull).
Proof.
  destruct k; cbn [key_of_value is_null]; try discriminate.
  - intros [= <-]. tauto.
  - destruct (as_i64 n); [|discriminate]. intros [= <-]. split; discriminate.
  - intros [= <-]. split; discriminate.
Qed.

Lemma mfold d keys acc :
  fold_left (mstep d) keys (Ok acc) = doo m <- missing_keys d keys; Ok (acc ++ m).
Proof.
  revert acc. induction keys as [|k r IH]; intros acc.
  - cbn. rewrite app_nil_r. reflexivity.
  - cbn [fold_left missing_keys]. unfold mstep at 2. cbn [obind].
    destruct (key_of_value_ok_or_err k) as [[key Hk]|[e Hk]]; rewrite Hk; cbn [obind].
    + rewrite (get_key_spec d k key Hk). cbn [obind].
      pose proof (key_null k key Hk) as Hn.
      destruct key as [|s|i].
      * rewrite IH. replace (is_null k) with true by (symmetry; apply Hn; reflexivity).
        destruct (missing_keys d r); reflexivity.
      * replace (is_null k) with false by (symmetry; destruct (is_null k); [destruct Hn as [Hn _]; discriminate (Hn eq_refl) | reflexivity]).
        destruct (get_key d (KStr s)); rewrite IH; destruct (missing_keys d r); try reflexivity.
        cbn [obind]. rewrite <- app_assoc. reflexivity.
      * replace (is_null k) with false by (symmetry; destruct (is_null k); [destruct Hn as [Hn _]; discriminate (Hn eq_refl) | reflexivity]).
        destruct (get_key d (KNum i)); rewrite IH; destruct (missing_keys d r); try reflexivity.
        cbn [obind]. rewrite <- app_assoc. reflexivity.
    + rewrite (key_invalid k e Hk). cbn [obind]. apply ofold_err. reflexivity.
Qed.

Lemma op_missing_spec d args : op_missing d args = missing_spec d args.
Proof.
  unfold op_missing, missing_spec.
  set (keys := match args with Arr vals :: _ => vals | _ => args end).
  change (fold_left _ keys (Ok [])) with (fold_left (mstep d) keys (Ok [])).
  rewrite mfold. destruct (missing_keys d keys); reflexivity.
Qed.

(** ** missing_some *)
Definition msstep (d : value) (threshold : N) (acc : outcome (N * list value)) (key : value)
  : outcome (N * list value) :=
  doo s <- acc;
  let '(count, missing) := s in
  if (threshold <=? count)%N then Ok (count, missing)
  else
    doo parsed <- key_of_value key;
    match parsed with
    | KNull => Ok (count, missing)
    | _ =>
        match get_key d parsed with
        | None =>
            if existsb (fun m => value_serde_eqb m key) missing
            then Ok (count, missing)
            else Ok (count, missing ++ [key])
        | Some _ => Ok ((count + 1)%N, missing)
        end
    end.

Definition msfinal (threshold : N) (st : outcome (N * list value)) : outcome value :=
  doo s <- st;
  let '(present, missing) := s in
  if (threshold <=? present)%N then Ok (Arr []) else Ok (Arr missing).

Lemma valid_key_iff k : valid_key k = true <-> exists key, key_of_value k = Ok key.
Proof.
  destruct k; cbn [valid_key key_of_value]; split; intros H; eauto; try discriminate;
    try (destruct H as [? H]; discriminate).
  - destruct (as_i64 n); [eauto | discriminate].
  - destruct (as_i64 n); [reflexivity | destruct H as [? H]; discriminate].
Qed.

Lemma existsb_rev {A} (f : A -> bool) l : existsb f (rev l) = existsb f l.
Proof.
  induction l as [|x r IH]; [reflexivity|]. cbn [rev existsb]. rewrite existsb_app, IH. cbn [existsb].
  rewrite orb_false_r. apply orb_comm.
Qed.

Lemma count_present_cons d k r :
  count_present d (k :: r) =
  ((if negb (is_null k) && match lookup_spec d k with Ok (Some _) => true | _ => false end then 1 else 0)
   + count_present d r)%nat.
Proof.
  unfold count_present. cbn [filter].
  destruct (negb (is_null k) && match lookup_spec d k with Ok (Some _) => true | _ => false end); reflexivity.
Qed.

Lemma msfold_stopped d threshold keys count missing :
  (threshold <=? count)%N = true ->
  fold_left (msstep d threshold) keys (Ok (count, missing)) = Ok (count, missing).
Proof.
  intros H. induction keys as [|k r IH]; [reflexivity|]. cbn [fold_left]. unfold msstep at 2. cbn [obind].
  rewrite H. exact IH.
Qed.

Lemma msfold d threshold keys : forall count missing,
  msfinal threshold (fold_left (msstep d threshold) keys (Ok (count, missing))) =
  match missing_keys d keys with
  | Ok m => if (threshold <=? count + N.of_nat (count_present d keys))%N then Ok (Arr [])
            else Ok (Arr (missing ++ dedup m (rev missing)))
  | _ => if (threshold <=? count + N.of_nat (count_present d (take_while valid_key keys)))%N
         then Ok (Arr []) else Err InvalidVariableKey
  end.
Proof.
  assert (Hadd : forall c x, (c + 1 + N.of_nat x = c + N.of_nat (1 + x))%N) by (intros; lia).
  induction keys as [|k r IH]; intros count missing.
  - cbn. rewrite N.add_0_r, app_nil_r. reflexivity.
  - destruct (N.leb_spec threshold count) as [Hstop|Hgo].
    + (* threshold already met: nothing more is looked at *)
      rewrite msfold_stopped by (apply N.leb_le; exact Hstop).
      cbn [msfinal obind]. replace (threshold <=? count)%N with true by (symmetry; apply N.leb_le; exact Hstop).
      destruct (missing_keys d (k :: r)).
      all: match goal with |- context [(?t <=? ?x + ?y)%N] =>
             replace (t <=? x + y)%N with true by (symmetry; apply N.leb_le; lia) end; reflexivity.
    + cbn [fold_left]. unfold msstep at 2. cbn [obind].
      replace (threshold <=? count)%N with false by (symmetry; apply N.leb_gt; exact Hgo).
      destruct (key_of_value_ok_or_err k) as [[key Hk]|[e Hk]]; rewrite Hk; cbn [obind].
      * assert (Hv : valid_key k = true) by (apply valid_key_iff; eauto).
        cbn [missing_keys take_while]. rewrite Hv. rewrite !count_present_cons.
        rewrite (get_key_spec d k key Hk). cbn [obind].
        pose proof (key_null k key Hk) as Hn.
        destruct key as [|s|i].
        -- replace (is_null k) with true by (symmetry; apply Hn; reflexivity). cbn [negb andb].
           rewrite IH. destruct (missing_keys d r); reflexivity.
        -- replace (is_null k) with false by (symmetry; destruct (is_null k); [destruct Hn as [Hn _]; discriminate (Hn eq_refl) | reflexivity]).
           cbn [negb andb].
           destruct (get_key d (KStr s)).
           ++ rewrite IH, !Hadd. destruct (missing_keys d r); reflexivity.
           ++ cbn [Nat.add]. destruct (existsb (fun m => value_serde_eqb m k) missing) eqn:Ex.
              ** rewrite IH. destruct (missing_keys d r); cbn [obind]; try reflexivity.
                 cbn [dedup]. rewrite existsb_rev, Ex. reflexivity.
              ** rewrite IH. destruct (missing_keys d r); cbn [obind]; try reflexivity.
                 cbn [dedup]. rewrite existsb_rev, Ex. rewrite rev_app_distr. cbn [rev app].
                 rewrite <- app_assoc. reflexivity.
        -- replace (is_null k) with false by (symmetry; destruct (is_null k); [destruct Hn as [Hn _]; discriminate (Hn eq_refl) | reflexivity]).
           cbn [negb andb].
           destruct (get_key d (KNum i)).
           ++ rewrite IH, !Hadd. destruct (missing_keys d r); reflexivity.
           ++ cbn [Nat.add]. destruct (existsb (fun m => value_serde_eqb m k) missing) eqn:Ex.
              ** rewrite IH. destruct (missing_keys d r); cbn [obind]; try reflexivity.
                 cbn [dedup]. rewrite existsb_rev, Ex. reflexivity.
              ** rewrite IH. destruct (missing_keys d r); cbn [obind]; try reflexivity.
                 cbn [dedup]. rewrite existsb_rev, Ex. rewrite rev_app_distr. cbn [rev app].
                 rewrite <- app_assoc. reflexivity.
      * (* an invalid key reached before the threshold is met *)
        assert (Hv : valid_key k = false).
        { destruct (valid_key k) eqn:V; [|reflexivity]. apply valid_key_iff in V as [key' Hk']. congruence. }
        rewrite ofold_err by reflexivity.
        cbn [missing_keys take_while]. rewrite Hv, (key_invalid k e Hk). cbn [obind msfinal].
        change (count_present d []) with 0%nat. rewrite N.add_0_r.
        replace (threshold <=? count)%N with false by (symmetry; apply N.leb_gt; exact Hgo).
        destruct k; cbn [key_of_value] in Hk; try discriminate; try (injection Hk as <-; reflexivity).
        destruct (as_i64 n); [discriminate | injection Hk as <-; reflexivity].
Qed.

Lemma op_missing_some_spec d a b :
  op_missing_some d [a; b] = match a, b with
                             | Num n, Arr keys => match as_u64 n with
                                                  | Some need => missing_some_spec d need keys
                                                  | None => Err InvalidArgument
                                                  end
                             | _, _ => Err InvalidArgument
                             end.
Proof.
  unfold op_missing_some. unfold idx; cbn [nth_error obind].
  destruct a; try reflexivity. destruct (as_u64 n) as [need|]; [|destruct b; reflexivity]. cbn [obind].
  destruct b; try reflexivity. cbn [obind].
  pose proof (msfold d need l 0%N []) as H. unfold msfinal in H.
  change (fold_left _ l (Ok (0%N, []))) with (fold_left (msstep d need) l (Ok (0%N, []))).
  destruct (fold_left (msstep d need) l (Ok (0%N, []))) as [[present missing]|e| |]; cbn [obind] in *;
    rewrite H; unfold missing_some_spec; rewrite ?N.add_0_l; reflexivity.
Qed.
