(** * Facts about the generated operator tables (re-proved against the source on every run). *)
From Coq Require Import List ZArith NArith Bool Lia String.
From JL Require Import Base.Json Base.Lits Base.Monad Model.Ops Model.Table Gen.OpTable Model.Eval.
From JL Require Import Spec.Specs.
Import ListNotations.
Local Open Scope list_scope.

Definition all_keys : list str :=
  map e_key eager_table ++ map d_key data_table ++ map l_key lazy_meta.

Fixpoint nodupb (l : list str) : bool :=
  match l with
  | [] => true
  | x :: r => negb (existsb (str_eqb x) r) && nodupb r
  end.

(** every key is its entry's symbol *)
Lemma key_is_symbol :
  forallb (fun e => str_eqb (e_key e) (e_symbol e)) eager_table
  && forallb (fun e => str_eqb (d_key e) (d_symbol e)) data_table
  && forallb (fun e => str_eqb (l_key e) (l_symbol e)) lazy_meta = true.
Proof. vm_compute. reflexivity. Qed.

(** the three tables are disjoint, without duplicates, and hold exactly the 35 specified names *)
Lemma keys_nodup : nodupb all_keys = true.
Proof. vm_compute. reflexivity. Qed.

Lemma keys_are_spec_names :
  forallb (fun k => match name_of k with Some _ => true | None => false end) all_keys
  && forallb (fun kn => existsb (str_eqb (fst kn)) all_keys) op_names
  && Nat.eqb (List.length all_keys) 35 && Nat.eqb (List.length op_names) 35 = true.
Proof. vm_compute. reflexivity. Qed.

Lemma spec_names_nodup : nodupb (map fst op_names) = true.
Proof. vm_compute. reflexivity. Qed.

(** table lookup, as the parser does it: eager first, then lazy, then data *)
Inductive kind := KEager | KLazy | KData.

Definition kind_of (k : str) : option (kind * num_params) :=
  match lookup e_key eager_table k with
  | Some e => Some (KEager, e_np e)
  | None => match lookup l_key lazy_meta k with
            | Some e => Some (KLazy, l_np e)
            | None => match lookup d_key data_table k with
                      | Some e => Some (KData, d_np e)
                      | None => None
                      end
            end
  end.

Definition spec_kind (o : opname) : kind :=
  match o with
  | OVar | OMissing | OMissingSome => KData
  | OIf | OTernary | OOr | OAnd | OMap | OFilter | OReduce | OAll | OSome | ONone => KLazy
  | _ => KEager
  end.

Definition kind_eqb (a b : kind) : bool :=
  match a, b with KEager, KEager | KLazy, KLazy | KData, KData => true | _, _ => false end.

(** a key is in a table iff it is a specified name (lookup is exact equality of code points) *)
Lemma lookup_none_iff {A} (key_of : A -> str) (tbl : list A) (k : str) :
  lookup key_of tbl k = None <-> forallb (fun e => negb (str_eqb (key_of e) k)) tbl = true.
Proof.
  induction tbl as [|e r IH]; simpl; [tauto|].
  destruct (str_eqb (key_of e) k); simpl; [split; discriminate | exact IH].
Qed.

Lemma name_lookup_some l k o : name_lookup l k = Some o -> In (k, o) l.
Proof.
  induction l as [|[n o'] r IH]; simpl; [discriminate|].
  destruct (str_eqb n k) eqn:E.
  - intros [= <-]. apply str_eqb_eq in E. subst. left; reflexivity.
  - intros H. right. apply IH, H.
Qed.

Lemma name_lookup_none l k : name_lookup l k = None -> forall n o, In (n, o) l -> str_eqb n k = false.
Proof.
  induction l as [|[n' o'] r IH]; simpl; intros H n o Hin; [contradiction|].
  destruct (str_eqb n' k) eqn:E; [discriminate|].
  destruct Hin as [[= <- <-]|Hin]; [exact E | eapply IH; eauto].
Qed.

(** for each specified name: the tables hold it, with the specified kind *)
Lemma kinds_match :
  forallb (fun kn => match kind_of (fst kn) with
                     | Some (kd, _) => kind_eqb kd (spec_kind (snd kn))
                     | None => false
                     end) op_names = true.
Proof. vm_compute. reflexivity. Qed.

(** a key that is not a specified name is in none of the tables *)
Lemma unknown_key k : name_of k = None -> kind_of k = None.
Proof.
  intros H. unfold name_of in H.
  assert (Hk : forall n o, In (n, o) op_names -> str_eqb n k = false) by (apply name_lookup_none; exact H).
  assert (Hall : forall x, In x all_keys -> str_eqb x k = false).
  { intros x Hx.
    pose proof keys_are_spec_names as K. apply andb_true_iff in K as [K _]. apply andb_true_iff in K as [K _].
    apply andb_true_iff in K as [K _]. rewrite forallb_forall in K. specialize (K x Hx).
    destruct (name_of x) as [o|] eqn:E; [|discriminate]. apply name_lookup_some in E. eapply Hk; eauto. }
  unfold kind_of.
  assert (L1 : lookup e_key eager_table k = None).
  { apply lookup_none_iff, forallb_forall. intros e He. rewrite Hall; [reflexivity|].
    unfold all_keys. apply in_or_app. left. apply in_map, He. }
  assert (L2 : lookup l_key lazy_meta k = None).
  { apply lookup_none_iff, forallb_forall. intros e He. rewrite Hall; [reflexivity|].
    unfold all_keys. apply in_or_app. right. apply in_or_app. right. apply in_map, He. }
  assert (L3 : lookup d_key data_table k = None).
  { apply lookup_none_iff, forallb_forall. intros e He. rewrite Hall; [reflexivity|].
    unfold all_keys. apply in_or_app. right. apply in_or_app. left. apply in_map, He. }
  rewrite L1, L2, L3. reflexivity.
Qed.

(** ** Arity: each entry accepts exactly the documented operand counts, for every count *)
Definition np_of (k : str) : option num_params := option_map snd (kind_of k).

Lemma arity_documented :
  forall k o, In (k, o) op_names -> forall n,
    match np_of k with Some p => is_valid_len p n | None => false end = documented o n.
Proof.
  intros k o H n.
  repeat (destruct H as [H | H];
          [ injection H as <- <-;
            (destruct n as [|[|[|[|[|n]]]]]; vm_compute; reflexivity) | ]).
  contradiction.
Qed.

(** ** Unary sugar: whenever a bare operand would be rejected as "not an array", one operand is
    not a documented count anyway *)
Lemma unary_sugar_consistent :
  forall k o, In (k, o) op_names ->
    match np_of k with Some p => can_accept_unary p = false -> is_valid_len p 1 = false | None => False end.
Proof.
  intros k o H.
  repeat (destruct H as [H | H]; [ injection H as <- <-; vm_compute; auto | ]).
  contradiction.
Qed.

(** ** `?:` is the same function as `if` *)
Lemma ternary_is_if parsed P E :
  option_map l_fn (lookup l_key (lazy_table parsed P E) (lit "?:")) =
  option_map l_fn (lookup l_key (lazy_table parsed P E) (lit "if")).
Proof. reflexivity. Qed.
