(** * Laws of the outcome / log-trace monad. *)
From Coq Require Import List.
From JL Require Import Base.Json Base.Monad.
Import ListNotations.

Definition tapp {A} (t : list value) (m : M A) : M A := (t ++ fst m, snd m).

Lemma tapp_nil {A} (m : M A) : tapp [] m = m.
Proof. destruct m; reflexivity. Qed.

Lemma tapp_tapp {A} t1 t2 (m : M A) : tapp t1 (tapp t2 m) = tapp (t1 ++ t2) m.
Proof. destruct m; unfold tapp; simpl. rewrite app_assoc. reflexivity. Qed.

Lemma bind_ret_l {A B} (a : A) (f : A -> M B) : bind (ret a) f = f a.
Proof. unfold bind, ret. destruct (f a); reflexivity. Qed.

Lemma bind_ret_r {A} (m : M A) : bind m ret = m.
Proof. destruct m as [t [a|e| |]]; simpl; try reflexivity. rewrite app_nil_r. reflexivity. Qed.

Lemma bind_assoc {A B C} (m : M A) (f : A -> M B) (g : B -> M C) :
  bind (bind m f) g = bind m (fun a => bind (f a) g).
Proof.
  destruct m as [t [a|e| |]]; simpl; try reflexivity.
  destruct (f a) as [t' [b|e| |]]; simpl; try reflexivity.
  destruct (g b) as [t'' r]. rewrite app_assoc. reflexivity.
Qed.

Lemma bind_ok {A B} t (a : A) (f : A -> M B) : bind (t, Ok a) f = tapp t (f a).
Proof. unfold bind, tapp. destruct (f a); reflexivity. Qed.

Lemma bind_err {A B} t e (f : A -> M B) : bind (t, Err e) f = (t, Err e).
Proof. reflexivity. Qed.
Lemma bind_panic {A B} t (f : A -> M B) : bind (t, Panic) f = (t, Panic).
Proof. reflexivity. Qed.
Lemma bind_fuel {A B} t (f : A -> M B) : bind (t, OutOfFuel) f = (t, OutOfFuel).
Proof. reflexivity. Qed.

Lemma bind_tapp {A B} t (m : M A) (f : A -> M B) : bind (tapp t m) f = tapp t (bind m f).
Proof.
  destruct m as [t' [a|e| |]]; unfold tapp; simpl; try reflexivity.
  destruct (f a) as [t'' r]; simpl. rewrite app_assoc. reflexivity.
Qed.

Lemma bind_lift_ok {A B} (a : A) (f : A -> M B) : bind (lift (Ok a)) f = f a.
Proof. apply bind_ret_l. Qed.

Lemma bind_ext {A B} (m : M A) (f g : A -> M B) : (forall a, f a = g a) -> bind m f = bind m g.
Proof. intros H. destruct m as [t [a|e| |]]; simpl; try reflexivity. rewrite H. reflexivity. Qed.

(** Not-OK outcomes, as a predicate, to state absorption once. *)
Definition stuck {A} (o : outcome A) : Prop := match o with Ok _ => False | _ => True end.

Lemma bind_stuck {A B} t (o : outcome A) (f : A -> M B) :
  stuck o -> exists o' : outcome B, bind (t, o) f = (t, o') /\ stuck o' /\
    (forall e, o = Err e -> o' = Err e) /\ (o = Panic -> o' = Panic) /\ (o = OutOfFuel -> o' = OutOfFuel).
Proof.
  destruct o as [a|e| |]; simpl; intros H; try contradiction.
  - exists (Err e). repeat split; auto; try discriminate. intros e' [= ->]. reflexivity.
  - exists Panic. repeat split; auto; discriminate.
  - exists OutOfFuel. repeat split; auto; discriminate.
Qed.

(** Equivalence used by the refinement theorems: equal values and traces on success; on
    failure only "it is an error" (which error, and what was logged before, is not compared).
    Panic and OutOfFuel are related to nothing. *)
Definition meq (a b : M value) : Prop :=
  match snd a, snd b with
  | Ok x, Ok y => x = y /\ fst a = fst b
  | Err _, Err _ => True
  | _, _ => False
  end.

Lemma bind_if {A B} (b : bool) (x y : M A) (k : A -> M B) :
  bind (if b then x else y) k = if b then bind x k else bind y k.
Proof. destruct b; reflexivity. Qed.

Lemma if_same {A} (b : bool) (x : A) : (if b then x else x) = x.
Proof. destruct b; reflexivity. Qed.

(** ** Folds whose accumulator lives in the monad: the Rust pattern
    [iter.fold(Ok(init), |acc, x| { let a = acc?; ... })] *)
Section FoldlM.
  Context {S X : Type}.
  Variable f : S -> X -> M S.

  Fixpoint foldlM (xs : list X) (a : S) : M S :=
    match xs with
    | [] => ret a
    | x :: r => bind (f a x) (fun a' => foldlM r a')
    end.

  Lemma fold_left_bind xs (acc : M S) :
    fold_left (fun acc x => bind acc (fun a => f a x)) xs acc = bind acc (fun a => foldlM xs a).
  Proof.
    revert acc. induction xs as [|x r IH]; intros acc; simpl.
    - symmetry. apply bind_ret_r.
    - rewrite IH, bind_assoc. reflexivity.
  Qed.
End FoldlM.

Section FoldlMI.
  Context {S X : Type}.
  Variable f : nat -> S -> X -> M S.

  Fixpoint foldlM_i (xs : list X) (i : nat) (a : S) : M S :=
    match xs with
    | [] => ret a
    | x :: r => bind (f i a x) (fun a' => foldlM_i r (Datatypes.S i) a')
    end.

  Lemma fold_left_bind_i xs (acc : M S) i :
    fst (fold_left (fun (st : M S * nat) x => let '(acc, i) := st in (bind acc (fun a => f i a x), Datatypes.S i)) xs (acc, i))
    = bind acc (fun a => foldlM_i xs i a).
  Proof.
    revert acc i. induction xs as [|x r IH]; intros acc i; simpl.
    - symmetry. apply bind_ret_r.
    - rewrite IH, bind_assoc. reflexivity.
  Qed.
End FoldlMI.

Lemma foldlM_ext {S X} (f g : S -> X -> M S) xs a : (forall s x, f s x = g s x) -> foldlM f xs a = foldlM g xs a.
Proof. intros H. revert a. induction xs as [|x r IH]; intros a; simpl; [reflexivity|]. rewrite H. apply bind_ext. intros; apply IH. Qed.

(** induction two elements at a time *)
Lemma list_ind2 {A} (Q : list A -> Prop) :
  Q [] -> (forall a, Q [a]) -> (forall a b l, Q l -> Q (a :: b :: l)) -> forall l, Q l.
Proof.
  intros H0 H1 H2.
  assert (H : forall l, Q l /\ forall a, Q (a :: l)).
  { induction l as [|x l [IHa IHb]]; split; auto. }
  intros l. apply H.
Qed.
