(** * Facts about the value-based float comparison. *)
From Coq Require Import List ZArith NArith Bool Lia.
From Coq Require Import Floats.SpecFloat.
From JL Require Import Base.Json Base.F64.
Local Open Scope Z_scope.

Lemma f64_compare_sym a b : f64_compare b a = option_map CompOpp (f64_compare a b).
Proof.
  unfold f64_compare.
  destruct a as [sa|sa| |sa ma ea], b as [sb|sb| |sb mb eb]; try reflexivity;
    try (destruct sa; reflexivity); try (destruct sb; reflexivity);
    try (destruct sa, sb; reflexivity).
  all: cbn [f64_scaled option_map]; f_equal; rewrite (Z.min_comm); rewrite Z.compare_antisym; reflexivity.
Qed.

Lemma f64_eqb_sym a b : f64_eqb a b = f64_eqb b a.
Proof. unfold f64_eqb. rewrite (f64_compare_sym a b). destruct (f64_compare a b) as [[]|]; reflexivity. Qed.

Lemma str_eqb_sym a b : str_eqb a b = str_eqb b a.
Proof.
  revert b. induction a as [|x a IH]; intros [|y b]; cbn; try reflexivity.
  rewrite N.eqb_sym, IH. reflexivity.
Qed.
