(** * Correspondence check: the harness writes inputs and the implementation's observed
      outputs as terms of these types; [run_checks] evaluates, inside Coq,
      - corr_ok: the model M returns what the implementation returned, and
      - spec_ok: the implementation's output satisfies the property's specification S
        (independent of M). *)
From Coq Require Import List ZArith NArith Bool.
From JL Require Import Base.Json Base.Lits Base.F64 Base.Str Base.Dec2Flt Base.Flt2Dec Base.JsonText Base.Monad.
From JL Require Import Model.JsOp Model.Ops Model.Table Gen.OpTable Model.Eval Model.Boundary.
From JL Require Import Spec.Specs Spec.OpSpecs Spec.RefEval Spec.SpecApply.
Import ListNotations.

Inductive helper_name :=
| H_abstract_eq | H_abstract_ne | H_strict_eq | H_strict_ne | H_strict_eq_same
| H_abstract_lt | H_abstract_gt | H_abstract_lte | H_abstract_gte
| H_to_string | H_to_number | H_parse_float | H_str_to_number
| H_abstract_plus | H_abstract_minus | H_abstract_div | H_abstract_mod | H_to_negative
| H_abstract_max | H_abstract_min | H_parse_float_add | H_parse_float_mul.

Inductive hres := HBool (b : bool) | HF (o : option f64) | HErr | HVal (v : value) | HStr (s : str).

Inductive obs1 := O1Ok (v : value) | O1Err | O1Crash.

Inductive obs :=
| ObsOk (v : value) (logs : list str)       (* the lines written by log, as text *)
| ObsErr (k : option err) (logs : list str)
| ObsPanic | ObsAbort | ObsTimeout
| ObsHelper (r : hres)
| ObsPair (a b : obs)
| ObsMulti (l : list (list obs1))
| ObsCli (lines : list str) (code : N)           (* stdout lines and exit status of the jsonlogic command *)
| ObsPy (o : py_outcome)                         (* what the Python call did *)
| ObsBad.                                        (* the runner itself saw an inconsistency *)

Inductive work :=
| WApply (rule data : value)
| WHelper (h : helper_name) (args : list value)
| WPair (a b : work)
| WHistory (pool : list (value * value)) (iso : list obs1) (seq : list nat)
| WThreads (pool : list (value * value)) (iso : list obs1) (threads : nat)
| WCli (form : data_form) (logic data : parsed_text)
| WPy (value : parsed_text) (data : option parsed_text).

Record case := mk_case { c_id : N; c_work : work; c_obs : obs }.

(** ** What the model says *)
Definition of_res (r : outcome f64) : hres :=
  match r with Ok f => HF (Some f) | _ => HErr end.

Definition helper_model (h : helper_name) (args : list value) : hres :=
  match h, args with
  | H_abstract_eq, [a; b] => HBool (abstract_eq a b)
  | H_abstract_ne, [a; b] => HBool (abstract_ne a b)
  | H_strict_eq, [a; b] => HBool (strict_eq false a b)
  | H_strict_ne, [a; b] => HBool (strict_ne false a b)
  | H_strict_eq_same, [a] => HBool (strict_eq true a a)
  | H_abstract_lt, [a; b] => HBool (abstract_lt a b)
  | H_abstract_gt, [a; b] => HBool (abstract_gt a b)
  | H_abstract_lte, [a; b] => HBool (abstract_lte a b)
  | H_abstract_gte, [a; b] => HBool (abstract_gte a b)
  | H_to_string, [a] => HStr (to_string a)
  | H_to_number, [a] => HF (to_number a)
  | H_parse_float, [a] => HF (parse_float a)
  | H_str_to_number, [Str s] => HF (str_to_number s)
  | H_abstract_plus, [a; b] => HVal (abstract_plus a b)
  | H_abstract_minus, [a; b] => of_res (abstract_minus a b)
  | H_abstract_div, [a; b] => of_res (abstract_div a b)
  | H_abstract_mod, [a; b] => of_res (abstract_mod a b)
  | H_to_negative, [a] => of_res (to_negative a)
  | H_abstract_max, l => of_res (abstract_max l)
  | H_abstract_min, l => of_res (abstract_min l)
  | H_parse_float_add, l => of_res (parse_float_add l)
  | H_parse_float_mul, l => of_res (parse_float_mul l)
  | _, _ => HErr
  end.

Definition obs_of_M (m : M value) : obs :=
  match m with
  | (logs, Ok v) => ObsOk v (map json_text logs)
  | (logs, Err e) => ObsErr (Some e) (map json_text logs)
  | (_, Panic) => ObsPanic
  | (_, OutOfFuel) => ObsTimeout
  end.

Definition obs1_of_M (m : M value) : obs1 :=
  match m with
  | (_, Ok v) => O1Ok v
  | (_, Err _) => O1Err
  | _ => O1Crash
  end.

Definition model_call (pool : list (value * value)) (i : nat) : obs1 :=
  match nth_error pool i with
  | Some (r, d) => obs1_of_M (apply r d)
  | None => O1Crash
  end.

Fixpoint model_obs (w : work) : obs :=
  match w with
  | WApply r d => obs_of_M (apply r d)
  | WHelper h args => ObsHelper (helper_model h args)
  | WPair a b => ObsPair (model_obs a) (model_obs b)
  | WHistory pool _ seq => ObsMulti [map (model_call pool) seq]
  | WThreads pool _ n => ObsMulti (repeat (map (model_call pool) (seq 0 (length pool))) n)
  | WCli form logic data => let '(lines, code) := cli_form form logic data in ObsCli lines code
  | WPy value data => ObsPy (py_apply value data)
  end.

(** ** Comparing observations *)
Fixpoint list_eqb {A} (eq : A -> A -> bool) (a b : list A) : bool :=
  match a, b with
  | [], [] => true
  | x :: a', y :: b' => eq x y && list_eqb eq a' b'
  | _, _ => false
  end.

Definition opt_eqb {A} (eq : A -> A -> bool) (a b : option A) : bool :=
  match a, b with
  | Some x, Some y => eq x y
  | None, None => true
  | _, _ => false
  end.

Definition hres_eqb (a b : hres) : bool :=
  match a, b with
  | HBool x, HBool y => Bool.eqb x y
  | HF x, HF y => opt_eqb f64_same x y
  | HErr, HErr => true
  | HVal x, HVal y => value_same x y
  | HStr x, HStr y => str_eqb x y
  | _, _ => false
  end.

Definition obs1_eqb (a b : obs1) : bool :=
  match a, b with
  | O1Ok x, O1Ok y => value_same x y
  | O1Err, O1Err => true
  | _, _ => false          (* a crash never matches *)
  end.

Definition err_eqb (a b : err) : bool :=
  match a, b with
  | WrongArgumentCount, WrongArgumentCount | InvalidOperation, InvalidOperation
  | InvalidArgument, InvalidArgument | InvalidVariableKey, InvalidVariableKey
  | UnexpectedError, UnexpectedError => true
  | _, _ => false
  end.

Definition is_crash (o : obs) : bool :=
  match o with ObsPanic | ObsAbort | ObsTimeout => true | _ => false end.

(** [kinds]: also compare which error it is (when the harness could read the kind). *)
Fixpoint obs_eqb (kinds : bool) (m o : obs) : bool :=
  match m, o with
  | ObsOk v l, ObsOk v' l' => value_same v v' && list_eqb str_eqb l l'
  | ObsErr k l, ObsErr k' l' =>
      list_eqb str_eqb l l' &&
      (if kinds then match k, k' with Some a, Some b => err_eqb a b | _, _ => true end else true)
  | ObsHelper r, ObsHelper r' => hres_eqb r r'
  | ObsPair a b, ObsPair a' b' => obs_eqb kinds a a' && obs_eqb kinds b b'
  | ObsMulti l, ObsMulti l' => list_eqb (list_eqb obs1_eqb) l l'
  | ObsCli l c, ObsCli l' c' => list_eqb str_eqb l l' && N.eqb c c'
  | ObsPy a, ObsPy b =>
      match a, b with
      | PyReturn x, PyReturn y => str_eqb x y
      | PyValueError, PyValueError => true
      | _, _ => false
      end
  | _, _ => false
  end.

Fixpoint any_crash (o : obs) : bool :=
  match o with
  | ObsPanic | ObsAbort | ObsTimeout => true
  | ObsPair a b => any_crash a || any_crash b
  | ObsMulti l => existsb (existsb (fun x => match x with O1Crash => true | _ => false end)) l
  | ObsCli _ c => negb (N.eqb c 0 || N.eqb c 1)          (* 101 = panic, 134 = abort, ... *)
  | ObsPy PyOtherException => true
  | ObsBad => true
  | _ => false
  end.

(** ** Per-property checks *)
(** corr_ok: for C01 only "returned vs crashed" is compared; elsewhere the whole outcome. *)
Definition corr_ok (p : prop_id) (c : case) : bool :=
  let m := model_obs (c_work c) in
  match p with
  | P_C01 => negb (any_crash m) && negb (any_crash (c_obs c))
  | P_C03 => obs_eqb true m (c_obs c)
  | _ => obs_eqb false m (c_obs c)
  end.

Definition pair_same (o : obs) : bool :=
  match o with
  | ObsPair a b => obs_eqb false a b
  | _ => true
  end.

Definition multi_matches_iso (w : work) (o : obs) : bool :=
  match w, o with
  | WHistory _ iso seq, ObsMulti [l] =>
      list_eqb obs1_eqb l (map (fun i => nth i iso O1Crash) seq)
  | WThreads _ iso n, ObsMulti l =>
      Nat.eqb (length l) n && forallb (fun t => list_eqb obs1_eqb t iso) l
  | (WHistory _ _ _ | WThreads _ _ _), _ => false
  | _, _ => true
  end.

(** spec_ok: the observed output satisfies the specification; the model is not consulted. *)
Definition spec_ok (p : prop_id) (c : case) : bool :=
  negb (any_crash (c_obs c)) &&
  pair_same (c_obs c) &&
  multi_matches_iso (c_work c) (c_obs c) &&
  match c_work c, c_obs c with
  | WApply r d, o =>
      let out := match o with
                 | ObsOk v l => Some (l, Some v)
                 | ObsErr _ l => Some (l, None)
                 | _ => None
                 end in
      match out with
      | Some (logs, res) => spec_apply p r d logs res
      | None => false
      end
  | WHelper h args, ObsHelper r =>
      match h, args, r with
      | H_abstract_eq, [a; b], HBool x => Bool.eqb x (es_eq a b)
      | H_abstract_ne, [a; b], HBool x => Bool.eqb x (negb (es_eq a b))
      | H_strict_eq, [a; b], HBool x => Bool.eqb x (es_strict_eq a b)
      | H_strict_ne, [a; b], HBool x => Bool.eqb x (negb (es_strict_eq a b))
      | H_abstract_lt, [a; b], HBool x => Bool.eqb x (es_lt a b)
      | H_abstract_gt, [a; b], HBool x => Bool.eqb x (es_lt b a)
      | H_abstract_lte, [a; b], HBool x => Bool.eqb x (es_le a b)
      | H_abstract_gte, [a; b], HBool x => Bool.eqb x (es_le b a)
      | H_to_string, [a], HStr s => str_eqb s (to_string_spec a)
      | H_str_to_number, [Str t], HF o => opt_eqb f64_same o (es_str_to_number t)
      | H_to_number, [a], HF o => opt_eqb f64_same o (es_to_number a)
      | H_parse_float, [a], HF o => opt_eqb f64_same o (es_parse_float a)
      | _, _, _ => true
      end
  | WCli _ logic data, ObsCli lines code =>
      match logic, data with
      | Some r, Some d =>
          match ref_eval r d with
          | (t, Ok v) => N.eqb code 0 && list_eqb str_eqb lines (map json_text t ++ [json_text v])
          | (t, Err _) => negb (N.eqb code 0) && lines_prefixb lines (map json_text t)
          | _ => false
          end
      | _, _ => negb (N.eqb code 0) && match lines with [] => true | _ => false end
      end
  | WPy value data, ObsPy o =>
      match value, (match data with Some d => d | None => Some Null end) with
      | Some r, Some d =>
          match ref_eval r d, o with
          | (_, Ok v), PyReturn text => str_eqb text (json_text v)
          | (_, Err _), PyValueError => true
          | _, _ => false
          end
      | _, _ => match o with PyValueError => true | _ => false end
      end
  | (WCli _ _ _ | WPy _ _), _ => false
  | _, _ => true
  end.

Definition wf_opt (o : parsed_text) : bool := match o with Some v => wfb v | None => true end.

Fixpoint wf_work (w : work) : bool :=
  match w with
  | WApply r d => wfb r && wfb d
  | WHelper _ args => forallb wfb args
  | WPair a b => wf_work a && wf_work b
  | WHistory pool _ _ | WThreads pool _ _ => forallb (fun rd => wfb (fst rd) && wfb (snd rd)) pool
  | WCli _ logic data => wf_opt logic && wf_opt data
  | WPy value data => wf_opt value && match data with Some d => wf_opt d | None => true end
  end.

(** (ids failing corr_ok, ids failing spec_ok, ids of ill-formed inputs, number of cases) *)
Definition run_checks (p : prop_id) (cases : list case) : list N * list N * list N * N :=
  (map c_id (filter (fun c => negb (corr_ok p c)) cases),
   map c_id (filter (fun c => negb (spec_ok p c)) cases),
   map c_id (filter (fun c => negb (wf_work (c_work c))) cases),
   N.of_nat (length cases)).
