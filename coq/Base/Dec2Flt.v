(** * Correctly rounded decimal -> binary64 (what f64::from_str documents), and the
      crate's decimal-literal scanner (js_op.rs: scan_unsigned_decimal, parse_decimal_prefix,
      radix_digits_to_number, str_to_number, parse_float_string). *)
From Coq Require Import List ZArith NArith Bool Lia.
From Coq Require Import Floats.SpecFloat.
From JL Require Import Base.Json Base.Lits Base.F64 Base.Str.
Import ListNotations.
Local Open Scope Z_scope.

(** [m * 10^e10], m >= 0, rounded to nearest even. *)
Definition dec_to_f64_pos (m e10 : Z) : f64 :=
  if m =? 0 then S754_zero false
  else
    let l2 := Z.log2 m in
    if (l2 / 3 + 1 + e10 <? -330) then S754_zero false
    else if (310 <? l2 * 3 / 10 + e10) then S754_infinity false
    else if 0 <=? e10 then binary_normalize prec emax (m * 10 ^ e10) 0 false
    else
      let D := 10 ^ (- e10) in
      let k := Z.max 0 (Z.log2 D + 66 - l2) in
      let n := m * 2 ^ k in
      let q := n / D in
      let r := n mod D in
      binary_normalize prec emax (2 * q + (if r =? 0 then 0 else 1)) (- k - 1) false.

Definition dec_to_f64 (neg : bool) (m e10 : Z) : f64 :=
  let f := dec_to_f64_pos m e10 in if neg then SFopp f else f.

(** ** The scanner *)
Local Open Scope N_scope.

Definition is_e (c : N) : bool := (c =? 101) || (c =? 69).
Definition is_sign (c : N) : bool := (c =? 43) || (c =? 45).

(** Result of scanning an unsigned decimal literal: the integer digits, the
    fraction digits, the exponent (sign, digits) if complete, and the length consumed. *)
Record dec_lit := { dl_int : str; dl_frac : str; dl_exp : option (bool * str); dl_len : nat }.

(** the optional sign of an exponent: (negative, characters consumed, rest) *)
Definition exp_sign (r : str) : bool * nat * str :=
  match r with
  | 43 :: r' => (false, 1%nat, r')
  | 45 :: r' => (true, 1%nat, r')
  | _ => (false, O, r)
  end.

(** the exponent after the 'e': sign, sign length, digits, what follows the digits *)
Definition scan_exp (r : str) : bool * nat * str * str :=
  let '(eneg, sign_len, r') := exp_sign r in
  (eneg, sign_len, take_while is_digit r', drop_while is_digit r').

Definition mk_lit (i f : str) (e : option (bool * str)) (n : nat) : dec_lit :=
  {| dl_int := i; dl_frac := f; dl_exp := e; dl_len := n |}.

(** after the mantissa (integer digits D1, fraction digits D2, [base] characters so far): an
    exponent is consumed only if it is complete *)
Definition scan_tail (D1 D2 : str) (base : nat) (R2 : str) : option dec_lit :=
  match D1, D2 with
  | [], [] => None                                   (* no digit at all: not a literal *)
  | _, _ =>
      match R2 with
      | c :: r =>
          if is_e c then
            let '(eneg, sl, eds, _) := scan_exp r in
            match eds with
            | [] => Some (mk_lit D1 D2 None base)
            | _ => Some (mk_lit D1 D2 (Some (eneg, eds)) (base + 1 + sl + length eds)%nat)
            end
          else Some (mk_lit D1 D2 None base)
      | [] => Some (mk_lit D1 D2 None base)
      end
  end.

(** after the integer digits D1: a dot is consumed when a digit stands on either side of it *)
Definition scan_body (D1 R1 : str) : option dec_lit :=
  match R1 with
  | 46 :: r =>
      match D1, take_while is_digit r with
      | [], [] => scan_tail D1 [] (length D1 + 0) R1
      | _, _ => scan_tail D1 (take_while is_digit r) (length D1 + S (length (take_while is_digit r))) (drop_while is_digit r)
      end
  | _ => scan_tail D1 [] (length D1 + 0) R1
  end.

(** js_op.rs::scan_unsigned_decimal (the Rust code counts digits and continues from that offset;
    here: the digits taken and the rest dropped) *)
Definition scan_unsigned_decimal (s : str) : option dec_lit :=
  scan_body (take_while is_digit s) (drop_while is_digit s).

(** f64::from_str on the scanned literal: correctly rounded. *)
Definition dec_lit_value (l : dec_lit) : f64 :=
  let m := digits_val (dl_int l ++ dl_frac l) in
  let e := match dl_exp l with
           | None => 0%Z
           | Some (neg, ds) => if neg then (- digits_val ds)%Z else digits_val ds
           end in
  dec_to_f64_pos m (e - Z.of_nat (length (dl_frac l)))%Z.

Definition infinity_lit : str := s_Infinity.

(** parse_decimal_prefix: optional sign, then Infinity or a decimal literal. *)
Definition parse_decimal_prefix (s : str) : option (f64 * nat) :=
  let '(neg, sign_len, u) :=
    match s with
    | 45 :: r => (true, 1%nat, r)
    | 43 :: r => (false, 1%nat, r)
    | _ => (false, O, s)
    end in
  let r :=
    if starts_with infinity_lit u then Some (S754_infinity false, 8%nat)
    else match scan_unsigned_decimal u with
         | None => None
         | Some l => Some (dec_lit_value l, dl_len l)
         end in
  match r with
  | None => None
  | Some (mag, len) => Some (if neg then SFopp mag else mag, (sign_len + len)%nat)
  end.

(** char::to_digit(radix) for radix 2, 8, 16 *)
Definition to_digit (radix : N) (c : N) : option N :=
  let d := if is_digit c then Some (c - 48)
           else if (97 <=? c) && (c <=? 122) then Some (c - 97 + 10)
           else if (65 <=? c) && (c <=? 90) then Some (c - 65 + 10)
           else None in
  match d with
  | Some v => if v <? radix then Some v else None
  | None => None
  end.

(** radix_digits_to_number: the exact integer, correctly rounded (the Rust code keeps 64
    leading bits plus a sticky bit and scales by a power of two; that is the same value). *)
Fixpoint radix_value (radix : N) (ds : str) (acc : Z) : option Z :=
  match ds with
  | [] => Some acc
  | c :: r =>
      match to_digit radix c with
      | Some d => radix_value radix r (acc * Z.of_N radix + Z.of_N d)%Z
      | None => None
      end
  end.

Definition radix_digits_to_number (ds : str) (radix : N) : option f64 :=
  match ds with
  | [] => None
  | _ => match radix_value radix ds 0%Z with
         | Some z => Some (f64_of_Z z)
         | None => None
         end
  end.

(** str_to_number: JS Number(string); None where JS gives NaN. *)
Definition str_to_number (s0 : str) : option f64 :=
  let s := trim_both is_js_ws s0 in
  match s with
  | [] => Some f64_zero
  | _ =>
      let radix :=
        match s with
        | 48 :: c :: _ =>
            if (c =? 120) || (c =? 88) then Some 16
            else if (c =? 111) || (c =? 79) then Some 8
            else if (c =? 98) || (c =? 66) then Some 2
            else None
        | _ => None
        end in
      match radix with
      | Some rdx => radix_digits_to_number (skipn 2 s) rdx
      | None =>
          match parse_decimal_prefix s with
          | Some (v, len) => if Nat.eqb len (length s) then Some v else None
          | None => None
          end
      end
  end.

(** parse_float_string: JS parseFloat on a string. *)
Definition parse_float_string (s : str) : option f64 :=
  match parse_decimal_prefix (trim_start is_js_ws s) with
  | Some (v, _) => Some v
  | None => None
  end.
