(** * binary64 arithmetic: Coq's SpecFloat at prec 53 / emax 1024, plus the few
      Rust f64 methods the crate uses (fract, %, as i64, as u64). *)
From Coq Require Import List ZArith NArith Bool Lia.
From Coq Require Import Floats.SpecFloat.
From JL Require Import Base.Json.
Import ListNotations.
Local Open Scope Z_scope.

Definition f64_add (a b : f64) : f64 := SFadd prec emax a b.
Definition f64_sub (a b : f64) : f64 := SFsub prec emax a b.
Definition f64_mul (a b : f64) : f64 := SFmul prec emax a b.
Definition f64_div (a b : f64) : f64 := SFdiv prec emax a b.
Definition f64_neg (a : f64) : f64 := SFopp a.

Definition f64_zero : f64 := S754_zero false.
Definition f64_one : f64 := f64_of_Z 1.
Definition f64_minus_one : f64 := f64_of_Z (-1).
Definition f64_inf : f64 := S754_infinity false.
Definition f64_neg_inf : f64 := S754_infinity true.

Definition is_nan (f : f64) : bool := match f with S754_nan => true | _ => false end.

(** The exact integer part, truncated toward zero, of a finite float. *)
Definition f64_trunc_Z (f : f64) : Z :=
  match f with
  | S754_finite s m e =>
      let mag := if 0 <=? e then Z.pos m * 2 ^ e else Z.pos m / 2 ^ (- e) in
      if s then - mag else mag
  | _ => 0
  end.

(** [x.fract() == 0.0]: true exactly for finite integral values (inf.fract() is NaN). *)
Definition fract_is_zero (f : f64) : bool :=
  match f with
  | S754_zero _ => true
  | S754_finite _ m e => if 0 <=? e then true else Z.eqb (Z.pos m mod 2 ^ (- e)) 0
  | _ => false
  end.

(** Rust [as i64] / [as u64]: truncating, saturating, NaN to 0. *)
Definition f64_as_i64 (f : f64) : Z :=
  match f with
  | S754_nan => 0
  | S754_infinity s => if s then - two63 else two63 - 1
  | _ => Z.max (- two63) (Z.min (two63 - 1) (f64_trunc_Z f))
  end.

Definition f64_as_u64 (f : f64) : N :=
  match f with
  | S754_nan => 0%N
  | S754_infinity s => if s then 0%N else Z.to_N (two64 - 1)
  | _ => Z.to_N (Z.max 0 (Z.min (two64 - 1) (f64_trunc_Z f)))
  end.

(** Rust [%] on f64 is C fmod: exact, sign of the dividend. *)
Definition f64_rem (x y : f64) : f64 :=
  match x, y with
  | S754_nan, _ | _, S754_nan => S754_nan
  | S754_infinity _, _ => S754_nan
  | _, S754_zero _ => S754_nan
  | _, S754_infinity _ => x
  | S754_zero _, _ => x
  | S754_finite sx mx ex, S754_finite _ my ey =>
      let e := Z.min ex ey in
      let X := Z.pos mx * 2 ^ (ex - e) in
      let Y := Z.pos my * 2 ^ (ey - e) in
      let R := X mod Y in
      binary_normalize prec emax (if sx then - R else R) e sx
  end.

(** u64 as f64 / i64 as f64: round to nearest even. *)
Definition f64_of_N (n : N) : f64 := f64_of_Z (Z.of_N n).
