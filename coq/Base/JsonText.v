(** * serde_json's compact serialiser (Value::to_string / Display), as code points. *)
From Coq Require Import List ZArith NArith Bool.
From JL Require Import Base.Json Base.Lits Base.Str Base.Flt2Dec.
Import ListNotations.
Local Open Scope N_scope.

Definition hex_digit (n : N) : N := if n <? 10 then 48 + n else 87 + n.   (* lowercase *)

Definition escape_char (c : N) : str :=
  if c =? 34 then [92; 34]
  else if c =? 92 then [92; 92]
  else if c =? 8 then [92; 98]
  else if c =? 12 then [92; 102]
  else if c =? 10 then [92; 110]
  else if c =? 13 then [92; 114]
  else if c =? 9 then [92; 116]
  else if c <? 32 then [92; 117; 48; 48; hex_digit (c / 16); hex_digit (c mod 16)]
  else [c].

Definition quote (s : str) : str := 34 :: flat_map escape_char s ++ [34].

Fixpoint json_text (v : value) : str :=
  match v with
  | Null => s_null
  | Bool b => if b then s_true else s_false
  | Num n => num_text n
  | Str s => quote s
  | Arr l =>
      91 :: join s_comma ((fix go (l : list value) : list str :=
                             match l with [] => [] | x :: xs => json_text x :: go xs end) l) ++ [93]
  | Obj l =>
      123 :: join s_comma ((fix go (l : list (str * value)) : list str :=
                              match l with
                              | [] => []
                              | (k, x) :: xs => (quote k ++ 58 :: json_text x) :: go xs
                              end) l) ++ [125]
  end.
