(** * JSON values as serde_json::Value (no arbitrary_precision, BTreeMap objects). *)
From Coq Require Import List ZArith NArith Bool Lia String Ascii.
From Coq Require Import Floats.SpecFloat.
Import ListNotations.
Local Open Scope Z_scope.

Definition prec : Z := 53.
Definition emax : Z := 1024.
Definition f64 := spec_float.

(** serde_json::Number: N::PosInt(u64) | N::NegInt(i64, always negative) | N::Float(f64, always finite) *)
Inductive num := PosInt (n : N) | NegInt (z : Z) | Float (f : f64).

(** Strings are lists of Unicode scalar values. *)
Definition str := list N.

Inductive value :=
| Null
| Bool (b : bool)
| Num (n : num)
| Str (s : str)
| Arr (l : list value)
| Obj (l : list (str * value)).   (* BTreeMap: keys strictly ascending *)

(** ASCII literals. *)
Definition lit (s : string) : str :=
  List.map (fun a => N_of_ascii a) (list_ascii_of_string s).

(** ** Induction principle through the nested lists *)
Section ValueInd.
  Variable P : value -> Prop.
  Hypothesis HNull : P Null.
  Hypothesis HBool : forall b, P (Bool b).
  Hypothesis HNum : forall n, P (Num n).
  Hypothesis HStr : forall s, P (Str s).
  Hypothesis HArr : forall l, Forall P l -> P (Arr l).
  Hypothesis HObj : forall l, Forall (fun kv => P (snd kv)) l -> P (Obj l).

  Fixpoint value_ind' (v : value) : P v :=
    match v with
    | Null => HNull
    | Bool b => HBool b
    | Num n => HNum n
    | Str s => HStr s
    | Arr l =>
        HArr l ((fix go (l : list value) : Forall P l :=
                   match l with
                   | [] => Forall_nil _
                   | x :: xs => Forall_cons _ (value_ind' x) (go xs)
                   end) l)
    | Obj l =>
        HObj l ((fix go (l : list (str * value)) : Forall (fun kv => P (snd kv)) l :=
                   match l with
                   | [] => Forall_nil _
                   | kv :: xs => Forall_cons _ (value_ind' (snd kv)) (go xs)
                   end) l)
    end.
End ValueInd.

(** ** String comparison (Rust String: byte order = code point order) *)
Fixpoint str_eqb (a b : str) : bool :=
  match a, b with
  | [], [] => true
  | x :: a', y :: b' => N.eqb x y && str_eqb a' b'
  | _, _ => false
  end.

Fixpoint str_ltb (a b : str) : bool :=
  match a, b with
  | [], [] => false
  | [], _ :: _ => true
  | _ :: _, [] => false
  | x :: a', y :: b' => if N.ltb x y then true else if N.eqb x y then str_ltb a' b' else false
  end.

Definition str_leb (a b : str) : bool := negb (str_ltb b a).

Lemma str_eqb_eq a b : str_eqb a b = true <-> a = b.
Proof.
  revert b; induction a as [|x a IH]; intros [|y b]; simpl; split; intros H; try congruence; auto.
  - apply andb_true_iff in H as [H1 H2]. apply N.eqb_eq in H1. apply IH in H2. congruence.
  - inversion H; subst. rewrite N.eqb_refl. simpl. apply IH. reflexivity.
Qed.

Lemma str_eqb_refl a : str_eqb a a = true.
Proof. apply str_eqb_eq; reflexivity. Qed.

(** ** f64 basics needed here *)
Definition f64_of_Z (z : Z) : f64 := binary_normalize prec emax z 0 false.

Definition is_finite (f : f64) : bool :=
  match f with S754_zero _ | S754_finite _ _ _ => true | _ => false end.

(** Rust's ==, <, <= on f64: comparison of the real values (NaN is unordered, -0 = +0).
    Finite values are compared exactly by scaling both mantissas to the smaller exponent. *)
Definition f64_scaled (f : f64) : Z * Z :=       (* (signed mantissa, exponent); zero is (0, 0) *)
  match f with
  | S754_finite s m e => (if s then Z.neg m else Z.pos m, e)
  | _ => (0, 0)
  end.

Definition f64_compare (a b : f64) : option comparison :=
  match a, b with
  | S754_nan, _ | _, S754_nan => None
  | S754_infinity s1, S754_infinity s2 =>
      Some (match s1, s2 with
            | true, true | false, false => Eq
            | true, false => Lt
            | false, true => Gt
            end)
  | S754_infinity s, _ => Some (if s then Lt else Gt)
  | _, S754_infinity s => Some (if s then Gt else Lt)
  | _, _ =>
      let '(ma, ea) := f64_scaled a in
      let '(mb, eb) := f64_scaled b in
      let e := Z.min ea eb in
      Some (Z.compare (ma * 2 ^ (ea - e)) (mb * 2 ^ (eb - e)))
  end.

Definition f64_eqb (a b : f64) : bool := match f64_compare a b with Some Eq => true | _ => false end.
Definition f64_ltb (a b : f64) : bool := match f64_compare a b with Some Lt => true | _ => false end.
Definition f64_leb (a b : f64) : bool := match f64_compare a b with Some Lt | Some Eq => true | _ => false end.

(** Bit-level identity of floats (for comparing model and implementation). *)
Definition f64_same (a b : f64) : bool :=
  match a, b with
  | S754_zero s, S754_zero t => Bool.eqb s t
  | S754_infinity s, S754_infinity t => Bool.eqb s t
  | S754_nan, S754_nan => true
  | S754_finite s m e, S754_finite t n g => Bool.eqb s t && Pos.eqb m n && Z.eqb e g
  | _, _ => false
  end.

(** ** serde_json::Number API *)
Definition two63 : Z := 9223372036854775808.
Definition two64 : Z := 18446744073709551616.

Definition as_f64 (n : num) : f64 :=
  match n with
  | PosInt u => f64_of_Z (Z.of_N u)
  | NegInt i => f64_of_Z i
  | Float f => f
  end.

Definition as_i64 (n : num) : option Z :=
  match n with
  | PosInt u => if Z.of_N u <? two63 then Some (Z.of_N u) else None
  | NegInt i => Some i
  | Float _ => None
  end.

Definition as_u64 (n : num) : option N :=
  match n with
  | PosInt u => Some u
  | _ => None
  end.

Definition num_of_i64 (z : Z) : num := if z <? 0 then NegInt z else PosInt (Z.to_N z).
Definition num_of_u64 (n : N) : num := PosInt n.
Definition num_from_f64 (f : f64) : option num := if is_finite f then Some (Float f) else None.

(** serde_json's derived PartialEq on N: variant-wise; floats with == *)
Definition num_serde_eqb (a b : num) : bool :=
  match a, b with
  | PosInt x, PosInt y => N.eqb x y
  | NegInt x, NegInt y => Z.eqb x y
  | Float x, Float y => f64_eqb x y
  | _, _ => false
  end.

(** Identity of numbers including variant and float bits. *)
Definition num_same (a b : num) : bool :=
  match a, b with
  | PosInt x, PosInt y => N.eqb x y
  | NegInt x, NegInt y => Z.eqb x y
  | Float x, Float y => f64_same x y
  | _, _ => false
  end.

(** ** Structural comparisons of values *)
Section ValueEq.
  Variable num_eq : num -> num -> bool.

  Fixpoint value_eqb_gen (a b : value) {struct a} : bool :=
    match a, b with
    | Null, Null => true
    | Bool x, Bool y => Bool.eqb x y
    | Num x, Num y => num_eq x y
    | Str x, Str y => str_eqb x y
    | Arr x, Arr y =>
        (fix go (x y : list value) {struct x} : bool :=
           match x, y with
           | [], [] => true
           | a :: x', b :: y' => value_eqb_gen a b && go x' y'
           | _, _ => false
           end) x y
    | Obj x, Obj y =>
        (fix go (x y : list (str * value)) {struct x} : bool :=
           match x, y with
           | [], [] => true
           | (k, a) :: x', (k', b) :: y' => str_eqb k k' && value_eqb_gen a b && go x' y'
           | _, _ => false
           end) x y
    | _, _ => false
    end.
End ValueEq.

(** serde_json Value == (objects are sorted maps, so list equality is map equality) *)
Definition value_serde_eqb := value_eqb_gen num_serde_eqb.
(** exact identity, used to compare model output with implementation output *)
Definition value_same := value_eqb_gen num_same.

(** ** Well-formedness: what serde_json can hold *)
Definition valid_f64 (f : f64) : bool :=
  match f with
  | S754_finite _ m e => valid_binary prec emax f
  | _ => true
  end.

Definition wf_num (n : num) : bool :=
  match n with
  | PosInt u => Z.of_N u <? two64
  | NegInt i => (- two63 <=? i) && (i <? 0)
  | Float f => is_finite f && valid_f64 f
  end.

Definition wf_char (c : N) : bool :=
  ((c <? 55296) || (57343 <? c))%N && (c <? 1114112)%N.

Definition wf_str (s : str) : bool := forallb wf_char s.

Fixpoint keys_sorted (l : list (str * value)) : bool :=
  match l with
  | [] => true
  | (k, _) :: rest =>
      match rest with
      | [] => true
      | (k', _) :: _ => str_ltb k k' && keys_sorted rest
      end
  end.

Fixpoint wfb (v : value) : bool :=
  match v with
  | Null | Bool _ => true
  | Num n => wf_num n
  | Str s => wf_str s
  | Arr l => (fix go (l : list value) := match l with [] => true | x :: xs => wfb x && go xs end) l
  | Obj l =>
      keys_sorted l &&
      (fix go (l : list (str * value)) :=
         match l with [] => true | (k, x) :: xs => wf_str k && wfb x && go xs end) l
  end.

(** Nesting depth. *)
Fixpoint vdepth (v : value) : nat :=
  match v with
  | Arr l => S ((fix go (l : list value) := match l with [] => O | x :: xs => Nat.max (vdepth x) (go xs) end) l)
  | Obj l => S ((fix go (l : list (str * value)) := match l with [] => O | (_, x) :: xs => Nat.max (vdepth x) (go xs) end) l)
  | _ => O
  end.

(** BTreeMap lookup. *)
Fixpoint obj_get (l : list (str * value)) (k : str) : option value :=
  match l with
  | [] => None
  | (k', v) :: rest => if str_eqb k k' then Some v else obj_get rest k
  end.

(** BTreeMap insert (sorted, replacing). *)
Fixpoint obj_insert (l : list (str * value)) (k : str) (v : value) : list (str * value) :=
  match l with
  | [] => [(k, v)]
  | (k', v') :: rest =>
      if str_eqb k k' then (k, v) :: rest
      else if str_ltb k k' then (k, v) :: l
      else (k', v') :: obj_insert rest k v
  end.
