(** * Strings as code-point lists: the Rust str operations the crate uses. *)
From Coq Require Import List ZArith NArith Bool Lia String Ascii.
From JL Require Import Base.Json.
Import ListNotations.
Local Open Scope N_scope.

(** ECMA-262 WhiteSpace + LineTerminator (the crate's is_js_whitespace). *)
Definition is_js_ws (c : N) : bool :=
  ((9 <=? c) && (c <=? 13)) || (c =? 32) || (c =? 160) || (c =? 5760)
  || ((8192 <=? c) && (c <=? 8202)) || (c =? 8232) || (c =? 8233) || (c =? 8239)
  || (c =? 8287) || (c =? 12288) || (c =? 65279).

Fixpoint drop_while {A} (p : A -> bool) (l : list A) : list A :=
  match l with
  | [] => []
  | x :: xs => if p x then drop_while p xs else l
  end.

Definition trim_start (p : N -> bool) (s : str) : str := drop_while p s.
Definition trim_end (p : N -> bool) (s : str) : str := rev (drop_while p (rev s)).
Definition trim_both (p : N -> bool) (s : str) : str := trim_end p (trim_start p s).

Definition is_digit (c : N) : bool := (48 <=? c) && (c <=? 57).
Definition digit_val (c : N) : Z := Z.of_N (c - 48).

Fixpoint take_while {A} (p : A -> bool) (l : list A) : list A :=
  match l with
  | [] => []
  | x :: xs => if p x then x :: take_while p xs else []
  end.

(** Value of a digit string (most significant first). *)
Definition digits_val (ds : str) : Z :=
  fold_left (fun acc c => (acc * 10 + digit_val c)%Z) ds 0%Z.

(** Rust [str::parse::<i64>]: optional sign, one or more ASCII digits, in range. *)
Definition parse_i64 (s : str) : option Z :=
  let '(neg, ds) :=
    match s with
    | 45 :: r => (true, r)       (* '-' *)
    | 43 :: r => (false, r)      (* '+' *)
    | _ => (false, s)
    end in
  match ds with
  | [] => None
  | _ =>
      if forallb is_digit ds then
        let v := digits_val ds in
        let v := if neg then (- v)%Z else v in
        if ((- two63 <=? v) && (v <? two63))%Z then Some v else None
      else None
  end.

Fixpoint starts_with (p s : str) : bool :=
  match p, s with
  | [], _ => true
  | x :: p', y :: s' => (x =? y) && starts_with p' s'
  | _ :: _, [] => false
  end.

(** Rust [str::contains(&str)] *)
Fixpoint str_contains (hay needle : str) : bool :=
  starts_with needle hay ||
  match hay with
  | [] => false
  | _ :: hay' => str_contains hay' needle
  end.

(** Decimal text of integers (Display for u64 / i64). *)
Fixpoint pos_digits_fuel (fuel : nat) (z : Z) (acc : str) : str :=
  match fuel with
  | O => acc
  | S n =>
      if (z <? 10)%Z then (Z.to_N z + 48) :: acc
      else pos_digits_fuel n (z / 10)%Z ((Z.to_N (z mod 10) + 48) :: acc)
  end.

Definition nat_text (z : Z) : str :=      (* z >= 0 *)
  pos_digits_fuel (S (Z.to_nat (Z.log2 z))) z [].

Definition Z_text (z : Z) : str :=
  if (z <? 0)%Z then 45 :: nat_text (- z) else nat_text z.

Fixpoint join (sep : str) (l : list str) : str :=
  match l with
  | [] => []
  | [x] => x
  | x :: xs => x ++ sep ++ join sep xs
  end.

Fixpoint repeat_char (c : N) (n : nat) : str :=
  match n with O => [] | S k => c :: repeat_char c k end.
