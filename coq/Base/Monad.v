(** * Outcomes and the log-trace monad. *)
From Coq Require Import List.
From JL Require Import Base.Json.
Import ListNotations.

(** The variants of error::Error that the crate constructs. *)
Inductive err :=
| WrongArgumentCount
| InvalidOperation
| InvalidArgument
| InvalidVariableKey
| UnexpectedError.

(** [Panic] is produced exactly where the Rust code could panic (indexing a vector
    beyond its length, unwrap on None); [OutOfFuel] where the model's recursion budget
    is exhausted.  Totality theorems show both unreachable. *)
Inductive outcome (A : Type) :=
| Ok (a : A)
| Err (e : err)
| Panic
| OutOfFuel.
Arguments Ok {A} a.
Arguments Err {A} e.
Arguments Panic {A}.
Arguments OutOfFuel {A}.

Definition obind {A B} (x : outcome A) (f : A -> outcome B) : outcome B :=
  match x with
  | Ok a => f a
  | Err e => Err e
  | Panic => Panic
  | OutOfFuel => OutOfFuel
  end.

Definition omap {A B} (f : A -> B) (x : outcome A) : outcome B :=
  obind x (fun a => Ok (f a)).

(** Evaluation may write lines (the [log] operator); they are collected in order. *)
Definition M (A : Type) : Type := list value * outcome A.

Definition ret {A} (a : A) : M A := ([], Ok a).
Definition lift {A} (x : outcome A) : M A := ([], x).
Definition fail {A} (e : err) : M A := ([], Err e).

Definition bind {A B} (x : M A) (f : A -> M B) : M B :=
  match x with
  | (t, Ok a) => let '(t', r) := f a in (t ++ t', r)
  | (t, Err e) => (t, Err e)
  | (t, Panic) => (t, Panic)
  | (t, OutOfFuel) => (t, OutOfFuel)
  end.

Declare Scope m_scope.
Delimit Scope m_scope with M.
Notation "'do' x <- e ; f" := (bind e (fun x => f))
  (at level 200, x name, e at level 100, f at level 200) : m_scope.
Notation "'doo' x <- e ; f" := (obind e (fun x => f))
  (at level 200, x name, e at level 100, f at level 200) : m_scope.

(** Left-to-right traversal that stops at the first non-Ok outcome
    (Iterator::collect::<Result<Vec<_>,_>>). *)
Section MapM.
  Context {A B : Type}.
  Variable f : A -> M B.
  Fixpoint mapM (l : list A) : M (list B) :=
    match l with
    | [] => ret []
    | x :: xs => bind (f x) (fun y => bind (mapM xs) (fun ys => ret (y :: ys)))
    end.
End MapM.

Section OMapM.
  Context {A B : Type}.
  Variable f : A -> outcome B.
  Fixpoint omapM (l : list A) : outcome (list B) :=
    match l with
    | [] => Ok []
    | x :: xs => obind (f x) (fun y => obind (omapM xs) (fun ys => Ok (y :: ys)))
    end.
End OMapM.

(** Positional access [items[i]]: a panic when out of bounds. *)
Definition idx {A} (l : list A) (i : nat) : outcome A :=
  match nth_error l i with
  | Some x => Ok x
  | None => Panic
  end.

Definition is_ok {A} (x : outcome A) : bool := match x with Ok _ => true | _ => false end.
Definition is_err {A} (x : outcome A) : bool := match x with Err _ => true | _ => false end.
