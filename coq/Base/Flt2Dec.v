(** * serde_json's Display for numbers: integers in decimal, floats as the shortest
      decimal that reads back to the same double (zmij/ryu layout). *)
From Coq Require Import List ZArith NArith Bool Lia.
From Coq Require Import Floats.SpecFloat.
From JL Require Import Base.Json Base.Lits Base.F64 Base.Str Base.Dec2Flt.
Import ListNotations.
Local Open Scope Z_scope.

(** positive finite value as a fraction N/D *)
Definition frac_of (m : positive) (e : Z) : Z * Z :=
  if 0 <=? e then (Z.pos m * 2 ^ e, 1) else (Z.pos m, 2 ^ (- e)).

(** floor (N/D * 10^s) *)
Definition scaled_floor (nd : Z * Z) (s : Z) : Z :=
  let '(n, d) := nd in
  if 0 <=? s then (n * 10 ^ s) / d else n / (d * 10 ^ (- s)).

(** decimal exponent p with 10^(p-1) <= N/D < 10^p *)
Fixpoint adjust_p (fuel : nat) (nd : Z * Z) (p : Z) : Z :=
  match fuel with
  | O => p
  | S k =>
      (* want scaled_floor nd (1 - p) in [1, 10) *)
      let q := scaled_floor nd (1 - p) in
      if q <? 1 then adjust_p k nd (p - 1)
      else if 10 <=? q then adjust_p k nd (p + 1)
      else p
  end.

Definition dec_exponent (nd : Z * Z) : Z :=
  let '(n, d) := nd in
  adjust_p 8 nd ((Z.log2 n - Z.log2 d) * 30103 / 100000 + 1).

(** compare N/D * 10^s with c + 1/2, i.e. 2*N*10^s  vs (2c+1)*D *)
Definition cmp_half (nd : Z * Z) (s c : Z) : comparison :=
  let '(n, d) := nd in
  if 0 <=? s then Z.compare (2 * n * 10 ^ s) ((2 * c + 1) * d)
  else Z.compare (2 * n) ((2 * c + 1) * d * 10 ^ (- s)).

(** shortest digits: returns (digits as Z, exponent10) with value = digits * 10^exponent10 *)
Fixpoint shortest_fuel (fuel : nat) (k : Z) (f : f64) (nd : Z * Z) (p : Z) : Z * Z :=
  match fuel with
  | O => (0, 0)
  | S fuel' =>
      let s := k - p in
      let lo := scaled_floor nd s in
      let hi := lo + 1 in
      let lo_ok := f64_same (dec_to_f64_pos lo (- s)) f in
      let hi_ok := f64_same (dec_to_f64_pos hi (- s)) f in
      match lo_ok, hi_ok with
      | true, false => (lo, - s)
      | false, true => (hi, - s)
      | true, true =>
          match cmp_half nd s lo with
          | Lt => (lo, - s)
          | Gt => (hi, - s)
          | Eq => if Z.even lo then (lo, - s) else (hi, - s)
          end
      | false, false => shortest_fuel fuel' (k + 1) f nd p
      end
  end.

Fixpoint strip_zeros (fuel : nat) (d e : Z) : Z * Z :=
  match fuel with
  | O => (d, e)
  | S k => if (d mod 10 =? 0) && negb (d =? 0) then strip_zeros k (d / 10) (e + 1) else (d, e)
  end.

Definition shortest_digits (m : positive) (e : Z) : Z * Z :=
  let nd := frac_of m e in
  let p := dec_exponent nd in
  let '(d, x) := shortest_fuel 18 1 (S754_finite false m e) nd p in
  strip_zeros 20 d x.

Local Open Scope N_scope.

Definition exp_text (x : Z) : str :=
  101 :: (if (x <? 0)%Z then 45 :: nat_text (- x) else 43 :: nat_text x).

(** zmij / ryu "pretty" layout *)
Definition layout (ds : str) (k : Z) : str :=
  let n := Z.of_nat (length ds) in
  let kk := (n + k)%Z in
  if ((0 <=? k) && (kk <=? 16))%Z then
    ds ++ repeat_char 48 (Z.to_nat k) ++ [46; 48]
  else if ((0 <? kk) && (kk <=? 16))%Z then
    firstn (Z.to_nat kk) ds ++ [46] ++ skipn (Z.to_nat kk) ds
  else if ((-5 <? kk) && (kk <=? 0))%Z then
    [48; 46] ++ repeat_char 48 (Z.to_nat (- kk)) ++ ds
  else
    match ds with
    | [d] => d :: exp_text (kk - 1)
    | d :: rest => d :: 46 :: rest ++ exp_text (kk - 1)
    | [] => []
    end.

Definition f64_text (f : f64) : str :=
  match f with
  | S754_zero s => if s then s_neg_zero else s_zero
  | S754_finite s m e =>
      let '(d, x) := shortest_digits m e in
      (if s then [45] else []) ++ layout (nat_text d) x
  | S754_infinity s => if s then s_neg_inf else s_inf     (* never in a JSON number *)
  | S754_nan => s_NaN
  end.

(** Display for serde_json::Number *)
Definition num_text (n : num) : str :=
  match n with
  | PosInt u => nat_text (Z.of_N u)
  | NegInt i => Z_text i
  | Float f => f64_text f
  end.
