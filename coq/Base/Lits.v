(** * String literals used by the crate, as code-point lists. *)
From Coq Require Import String List NArith.
From JL Require Import Base.Json.
Local Open Scope string_scope.

Definition s_Infinity : str := lit "Infinity".
Definition s_neg_zero : str := lit "-0.0".
Definition s_zero : str := lit "0.0".
Definition s_inf : str := lit "inf".
Definition s_neg_inf : str := lit "-inf".
Definition s_NaN : str := lit "NaN".
Definition s_object : str := lit "[object Object]".
Definition s_null : str := lit "null".
Definition s_true : str := lit "true".
Definition s_false : str := lit "false".
Definition s_comma : str := lit ",".
Definition s_current : str := lit "current".
Definition s_accumulator : str := lit "accumulator".
Definition s_empty : str := nil.

(** The supported operator names: the full JsonLogic set plus "?:". *)
Definition spec_name_lits : list str :=
  List.map lit
    ("==" :: "!=" :: "===" :: "!==" :: "!" :: "!!" :: "<" :: "<=" :: ">" :: ">=" :: "+" :: "-" :: "*" :: "/"
     :: "%" :: "max" :: "min" :: "merge" :: "in" :: "cat" :: "substr" :: "log" :: "var" :: "missing"
     :: "missing_some" :: "if" :: "?:" :: "or" :: "and" :: "map" :: "filter" :: "reduce" :: "all" :: "some"
     :: "none" :: nil).

(** The operators by name. *)
Inductive opname :=
| OEq | ONe | OSeq | OSne | ONot | ONotNot | OLt | OLe | OGt | OGe
| OAdd | OSub | OMul | ODiv | OMod | OMax | OMin | OMerge | OIn | OCat | OSubstr | OLog
| OVar | OMissing | OMissingSome
| OIf | OTernary | OOr | OAnd | OMap | OFilter | OReduce | OAll | OSome | ONone.

Definition op_names : list (str * opname) :=
  (lit "==", OEq) :: (lit "!=", ONe) :: (lit "===", OSeq) :: (lit "!==", OSne) :: (lit "!", ONot)
  :: (lit "!!", ONotNot) :: (lit "<", OLt) :: (lit "<=", OLe) :: (lit ">", OGt) :: (lit ">=", OGe)
  :: (lit "+", OAdd) :: (lit "-", OSub) :: (lit "*", OMul) :: (lit "/", ODiv) :: (lit "%", OMod)
  :: (lit "max", OMax) :: (lit "min", OMin) :: (lit "merge", OMerge) :: (lit "in", OIn)
  :: (lit "cat", OCat) :: (lit "substr", OSubstr) :: (lit "log", OLog) :: (lit "var", OVar)
  :: (lit "missing", OMissing) :: (lit "missing_some", OMissingSome) :: (lit "if", OIf)
  :: (lit "?:", OTernary) :: (lit "or", OOr) :: (lit "and", OAnd) :: (lit "map", OMap)
  :: (lit "filter", OFilter) :: (lit "reduce", OReduce) :: (lit "all", OAll) :: (lit "some", OSome)
  :: (lit "none", ONone) :: nil.

Definition s_var : str := lit "var".
