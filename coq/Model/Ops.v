(** * Model of src/op/{logic,numeric,array,string,data,impure}.rs and the operator
      closures of src/op/mod.rs, function by function. *)
From Coq Require Import List ZArith NArith Bool Lia.
From Coq Require Import Floats.SpecFloat.
From JL Require Import Base.Json Base.Lits Base.F64 Base.Str Base.Dec2Flt Base.Flt2Dec Base.Monad.
From JL Require Import Model.JsOp.
Import ListNotations.
Local Open Scope m_scope.

(** ** logic.rs *)
Definition truthy (v : value) : bool :=
  match v with
  | Null => false
  | Bool b => b
  | Num n => if f64_eqb (as_f64 n) f64_zero then false else true
  | Str s => match s with [] => false | _ => true end
  | Arr l => match l with [] => false | _ => true end
  | Obj _ => true
  end.

(** ** closures of OPERATOR_MAP (mod.rs) *)
Definition eager_fn := list value -> outcome value.

Definition bin_bool (f : value -> value -> bool) : eager_fn :=
  fun items => doo a <- idx items 0; doo b <- idx items 1; Ok (Bool (f a b)).

Definition op_abstract_eq : eager_fn := bin_bool abstract_eq.
Definition op_abstract_ne : eager_fn := bin_bool abstract_ne.
(** The operands are distinct slots of a freshly collected vector: never the same reference. *)
Definition op_strict_eq : eager_fn := bin_bool (strict_eq false).
Definition op_strict_ne : eager_fn := bin_bool (strict_ne false).
Definition op_not : eager_fn := fun items => doo a <- idx items 0; Ok (Bool (negb (truthy a))).
Definition op_double_not : eager_fn := fun items => doo a <- idx items 0; Ok (Bool (truthy a)).
Definition op_add : eager_fn := fun items => obind (parse_float_add items) to_number_value.
Definition op_mul : eager_fn := fun items => obind (parse_float_mul items) to_number_value.
Definition bin_num (f : value -> value -> outcome f64) : eager_fn :=
  fun items => doo a <- idx items 0; doo b <- idx items 1; obind (f a b) to_number_value.
Definition op_div : eager_fn := bin_num abstract_div.
Definition op_mod : eager_fn := bin_num abstract_mod.
Definition op_max : eager_fn := fun items => obind (abstract_max items) to_number_value.
Definition op_min : eager_fn := fun items => obind (abstract_min items) to_number_value.

(** ** numeric.rs *)
Definition compare (f : value -> value -> bool) : eager_fn :=
  fun items =>
    if Nat.eqb (length items) 2 then
      doo a <- idx items 0; doo b <- idx items 1; Ok (Bool (f a b))
    else
      doo a <- idx items 0; doo b <- idx items 1;
      if f a b then doo b' <- idx items 1; doo c <- idx items 2; Ok (Bool (f b' c))
      else Ok (Bool false).

Definition op_lt : eager_fn := compare abstract_lt.
Definition op_lte : eager_fn := compare abstract_lte.
Definition op_gt : eager_fn := compare abstract_gt.
Definition op_gte : eager_fn := compare abstract_gte.

Definition op_minus : eager_fn :=
  fun items =>
    doo v <- (if Nat.eqb (length items) 1
              then doo a <- idx items 0; to_negative a
              else doo a <- idx items 0; doo b <- idx items 1; abstract_minus a b);
    to_number_value v.

(** ** array.rs: merge, in *)
Definition op_merge : eager_fn :=
  fun items =>
    Ok (Arr (fold_left (fun acc i => match i with
                                     | Arr vals => acc ++ vals
                                     | _ => acc ++ [i]
                                     end) items [])).

(** array::deep_eq *)
Fixpoint deep_eq (a b : value) {struct a} : bool :=
  match a, b with
  | Num x, Num y => f64_eqb (as_f64 x) (as_f64 y)
  | Arr x, Arr y =>
      Nat.eqb (length x) (length y) &&
      (fix go (x y : list value) {struct x} : bool :=
         match x, y with
         | a' :: x', b' :: y' => deep_eq a' b' && go x' y'
         | _, _ => true
         end) x y
  | Obj x, Obj y =>
      Nat.eqb (length x) (length y) &&
      (fix go (x : list (str * value)) {struct x} : bool :=
         match x with
         | [] => true
         | (k, a') :: x' =>
             (match obj_get y k with
              | Some b' => deep_eq a' b'
              | None => false
              end) && go x'
         end) x
  | _, _ => value_serde_eqb a b
  end.

Definition op_in : eager_fn :=
  fun items =>
    doo needle <- idx items 0;
    doo haystack <- idx items 1;
    match haystack with
    | Null => Ok (Bool false)
    | Arr possibles => Ok (Bool (existsb (fun p => deep_eq p needle) possibles))
    | Str hay =>
        match needle with
        | Str n => Ok (Bool (str_contains hay n))
        | _ => Err InvalidArgument
        end
    | _ => Err InvalidArgument
    end.

(** ** string.rs *)
Definition op_cat : eager_fn :=
  fun items =>
    Ok (Str (fold_left (fun acc i => acc ++ match i with Str s => s | _ => to_string i end) items [])).

Definition arg_i64 (v : value) : outcome Z :=
  match v with
  | Num n => match as_i64 n with Some i => Ok i | None => Err InvalidArgument end
  | _ => Err InvalidArgument
  end.

Definition op_substr : eager_fn :=
  fun items =>
    doo string_arg <- idx items 0;
    doo idx_arg <- idx items 1;
    doo limit_opt <- (if Nat.ltb 2 (length items) then doo l <- idx items 2; Ok (Some l) else Ok None);
    match string_arg with
    | Str s =>
        doo i <- arg_i64 idx_arg;
        doo limit <- (match limit_opt with
                      | Some l => doo x <- arg_i64 l; Ok (Some x)
                      | None => Ok None
                      end);
        let string_len := Z.of_nat (length s) in
        let idx_abs := Z.abs i in                      (* unsigned_abs, then usize: always fits *)
        let start_idx := if (i <? 0)%Z
                         then (if (idx_abs <=? string_len)%Z then string_len - idx_abs else 0)%Z
                         else Z.min string_len idx_abs in
        let end_idx :=
          match limit with
          | None => string_len
          | Some l =>
              let limit_abs := Z.abs l in
              if (l <? 0)%Z
              then (if (limit_abs <=? string_len)%Z then string_len - limit_abs else 0)%Z
              (* start_idx.checked_add(limit_abs) cannot overflow: a Rust string is shorter than
                 2^63 bytes (allocations are bounded by isize::MAX) and limit_abs <= 2^63 *)
              else Z.min string_len (start_idx + limit_abs)%Z
          end in
        let count := if (start_idx <=? end_idx)%Z then (end_idx - start_idx)%Z else 0%Z in
        Ok (Str (firstn (Z.to_nat count) (skipn (Z.to_nat start_idx) s)))
    | _ => Err InvalidArgument
    end.

(** ** impure.rs: the one effect *)
Definition op_log (items : list value) : M value :=
  match idx items 0 with
  | Ok v => ([v], Ok v)
  | Err e => ([], Err e)
  | Panic => ([], Panic)
  | OutOfFuel => ([], OutOfFuel)
  end.

(** ** data.rs *)
Inductive key_type := KNull | KStr (s : str) | KNum (i : Z).

Definition key_of_value (v : value) : outcome key_type :=
  match v with
  | Null => Ok KNull
  | Str s => Ok (KStr s)
  | Num n => match as_i64 n with Some i => Ok (KNum i) | None => Err InvalidVariableKey end
  | _ => Err InvalidVariableKey
  end.

(** data::get: negative indices count from the end. *)
Definition get_idx {A} (l : list A) (i : Z) : option A :=
  let len := Z.of_nat (length l) in
  let u := Z.abs i in
  if (0 <=? i)%Z then (if (u <? len)%Z then nth_error l (Z.to_nat u) else None)
  else if (u <=? len)%Z then nth_error l (Z.to_nat (len - u)) else None.

(** data::split_with_escape with delimiter '.' (46), escape '\' (92) *)
Fixpoint split_go (input : str) (escape : bool) (slice : str) (result : list str) : list str :=
  match input with
  | [] => if match slice with [] => true | _ => false end then result else result ++ [slice]
  | c :: rest =>
      if escape then split_go rest false (slice ++ [c]) result
      else if (c =? 92)%N then split_go rest true slice result
      else if (c =? 46)%N then split_go rest false [] (result ++ [slice])
      else split_go rest false (slice ++ [c]) result
  end.

Definition split_with_escape (input : str) : list str := split_go input false [] [].

Definition get_step (acc : option value) (seg : str) : option value :=
  match acc with
  | None => None
  | Some (Obj map) => obj_get map seg
  | Some (Arr arr) => match parse_i64 seg with Some i => get_idx arr i | None => None end
  | Some (Str s) =>
      match parse_i64 seg with
      | Some i => match get_idx s i with Some c => Some (Str [c]) | None => None end
      | None => None
      end
  | Some _ => None
  end.

Definition get_str_key (data : value) (k : str) : option value :=
  match k with
  | [] => Some data
  | _ =>
      match data with
      | Obj _ | Arr _ | Str _ => fold_left get_step (split_with_escape k) (Some data)
      | _ => None
      end
  end.

Definition get_key (data : value) (key : key_type) : option value :=
  match key with
  | KNull => Some data
  | KStr k => get_str_key data k
  | KNum i =>
      match data with
      | Obj _ => get_str_key data (Z_text i)
      | Arr arr => get_idx arr i
      | Str s => match get_idx s i with Some c => Some (Str [c]) | None => None end
      | _ => None
      end
  end.

Definition data_fn := value -> list value -> outcome value.

Definition op_var : data_fn :=
  fun data args =>
    match args with
    | [] => Ok data
    | _ =>
        doo a0 <- idx args 0;
        doo key <- key_of_value a0;
        match get_key data key with
        | Some v => Ok v
        | None => if Nat.ltb (length args) 2 then Ok Null else idx args 1
        end
    end.

Definition op_missing : data_fn :=
  fun data args =>
    let adjusted :=
      match args with
      | Arr vals :: _ => vals
      | _ => args
      end in
    doo missing <-
      fold_left (fun acc arg =>
                   doo m <- acc;
                   doo key <- key_of_value arg;
                   match key with
                   | KNull => Ok m
                   | _ => match get_key data key with
                          | None => Ok (m ++ [arg])
                          | Some _ => Ok m
                          end
                   end) adjusted (Ok []);
    Ok (Arr missing).

Definition op_missing_some : data_fn :=
  fun data args =>
    doo threshold_arg <- idx args 0;
    doo keys_arg <- idx args 1;
    doo threshold <- (match threshold_arg with
                      | Num n => match as_u64 n with Some t => Ok t | None => Err InvalidArgument end
                      | _ => Err InvalidArgument
                      end);
    doo keys <- (match keys_arg with Arr ks => Ok ks | _ => Err InvalidArgument end);
    doo st <-
      fold_left (fun acc key =>
                   doo s <- acc;
                   let '(count, missing) := s in
                   if (threshold <=? count)%N then Ok (count, missing)
                   else
                     doo parsed <- key_of_value key;
                     match parsed with
                     | KNull => Ok (count, missing)
                     | _ =>
                         match get_key data parsed with
                         | None =>
                             if existsb (fun m => value_serde_eqb m key) missing
                             then Ok (count, missing)
                             else Ok (count, missing ++ [key])
                         | Some _ => Ok ((count + 1)%N, missing)
                         end
                     end) keys (Ok (0%N, []));
    let '(present, missing) := st in
    if (threshold <=? present)%N then Ok (Arr []) else Ok (Arr missing).

(** ** lazy operators (logic.rs, array.rs).
    [P] is Parsed::from_value and [E] is Parsed::evaluate; both are parameters, so every
    statement proved about these functions holds for whatever evaluator is plugged in. *)
Section Lazy.
  Variable parsed : Type.
  Variable P : value -> outcome parsed.
  Variable E : parsed -> value -> M value.

  Definition pe (v : value) (data : value) : M value :=
    do p <- lift (P v); E p data.

  Definition lazy_fn_type := value -> list value -> M value.

  (** logic::if_ : a fold over the enumerated operands with (last, was_truthy, should_return) *)
  Definition if_step (data : value) (acc : M (value * bool * bool) * nat) (val : value)
    : M (value * bool * bool) * nat :=
    let '(last_res, i) := acc in
    (do st <- last_res;
     let '(last_eval, was_truthy, should_return) := st in
     if should_return then ret (last_eval, was_truthy, should_return)
     else if Nat.even i then
       do ev <- pe val data; ret (ev, truthy ev, false)
     else if was_truthy then
       do t <- pe val data; ret (t, true, true)
     else ret (Null, was_truthy, should_return),
     S i).

  Definition if_ : lazy_fn_type :=
    fun data args =>
      match args with
      | [] => ret Null
      | [a] => pe a data
      | _ =>
          do st <- fst (fold_left (if_step data) args (ret (Null, false, false), O));
          ret (fst (fst st))
      end.

  (** logic::or / logic::and *)
  Inductive acc3 := Uninit | Decided (v : value) | Current (v : value).

  Definition or_ : lazy_fn_type :=
    fun data args =>
      do r <- fold_left (fun last_res cur =>
                           do last <- last_res;
                           match last with
                           | Decided _ => ret last
                           | _ => do ev <- pe cur data;
                                  if truthy ev then ret (Decided ev) else ret (Current ev)
                           end) args (ret Uninit);
      match r with
      | Decided v | Current v => ret v
      | Uninit => fail UnexpectedError
      end.

  Definition and_ : lazy_fn_type :=
    fun data args =>
      do r <- fold_left (fun last_res cur =>
                           do last <- last_res;
                           match last with
                           | Decided _ => ret last
                           | _ => do ev <- pe cur data;
                                  if negb (truthy ev) then ret (Decided ev) else ret (Current ev)
                           end) args (ret Uninit);
      match r with
      | Decided v | Current v => ret v
      | Uninit => fail UnexpectedError
      end.

  (** the collection of map / filter / reduce: an array, null as empty, else an error *)
  Definition coll_of (v : value) : outcome (list value) :=
    match v with
    | Arr vals => Ok vals
    | Null => Ok []
    | _ => Err InvalidArgument
    end.

  Definition map_ : lazy_fn_type :=
    fun data args =>
      do items <- lift (idx args 0);
      do expression <- lift (idx args 1);
      do evaluated <- pe items data;
      do values <- lift (coll_of evaluated);
      do pexpr <- lift (P expression);
      do rs <- mapM (fun v => E pexpr v) values;
      ret (Arr rs).

  Definition filter_ : lazy_fn_type :=
    fun data args =>
      do items <- lift (idx args 0);
      do expression <- lift (idx args 1);
      do evaluated <- pe items data;
      do values <- lift (coll_of evaluated);
      do pexpr <- lift (P expression);
      do kept <- fold_left (fun acc cur =>
                              do filtered <- acc;
                              do predicate <- E pexpr cur;
                              if truthy predicate then ret (filtered ++ [cur]) else ret filtered)
                           values (ret []);
      ret (Arr kept).

  Definition reduce_ctx (cur acc : value) : value :=
    Obj (obj_insert (obj_insert [] s_current cur) s_accumulator acc).

  Definition reduce_ : lazy_fn_type :=
    fun data args =>
      do items <- lift (idx args 0);
      do expression <- lift (idx args 1);
      do initializer <- lift (idx args 2);
      do evaluated <- pe items data;
      do init <- pe initializer data;
      do values <- lift (coll_of evaluated);
      do pexpr <- lift (P expression);
      fold_left (fun acc cur =>
                   do accumulator <- acc;
                   E pexpr (reduce_ctx cur accumulator))
                values (ret init).

  (** array::all / some: collection normalisation shared by both *)
  Definition quant_items (data : value) (first_arg : value) : M (bool * outcome (list value)) :=
    (* returns (items_are_rule_text, items or the InvalidArgument error) *)
    do pv <- (match first_arg with
              | Obj _ => do v <- pe first_arg data; ret (false, v)
              | _ => ret (true, first_arg)
              end);
    let '(rule_text, v) := pv in
    ret (rule_text,
         match v with
         | Arr items => Ok items
         | Str s => Ok (map (fun c => Str [c]) s)
         | Null => Ok []
         | _ => Err InvalidArgument
         end).

  Definition quant (init : bool) (stop : bool) : lazy_fn_type :=
    (* all: init = true, stop = false;  some: init = false, stop = true *)
    fun data args =>
      do first_arg <- lift (idx args 0);
      do second_arg <- lift (idx args 1);
      do ri <- quant_items data first_arg;
      let '(rule_text, items_r) := ri in
      do items <- lift items_r;
      match items with
      | [] => ret (Bool false)
      | _ =>
          do predicate <- lift (P second_arg);
          do result <- fold_left (fun acc i =>
                                    do res <- acc;
                                    if Bool.eqb res stop then ret stop
                                    else
                                      do item <- (if rule_text then pe i data else ret i);
                                      do pr <- E predicate item;
                                      ret (truthy pr))
                                 items (ret init);
          ret (Bool result)
      end.

  Definition all_ : lazy_fn_type := quant true false.
  Definition some_ : lazy_fn_type := quant false true.
  Definition none_ : lazy_fn_type :=
    fun data args =>
      do had_some <- some_ data args;
      match had_some with
      | Bool res => ret (Bool (negb res))
      | _ => fail UnexpectedError
      end.
End Lazy.
