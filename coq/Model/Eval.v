(** * Model of Parsed::from_value / Parsed::evaluate (value.rs, op/mod.rs) and lib.rs::apply. *)
From Coq Require Import List ZArith NArith Bool Lia String.
From JL Require Import Base.Json Base.Monad Model.Ops Model.Table Gen.OpTable.
Import ListNotations.
Local Open Scope m_scope.
Local Open Scope list_scope.

Inductive parsed :=
| POp (e : eager_entry) (args : list parsed)     (* Operation: arguments parsed recursively *)
| PData (e : data_entry) (args : list parsed)    (* DataOperation *)
| PLazy (key : str) (args : list value)          (* LazyOperation: arguments kept as raw JSON *)
| PRaw (v : value).                              (* Raw *)

(** Keys and arities of the lazy table do not depend on the evaluator it is instantiated with. *)
Definition lazy_meta : list lazy_entry :=
  lazy_table parsed (fun _ => Panic) (fun _ _ => lift Panic).

(** op_from_map's argument handling, for an operand that is not parsed further. *)
Definition op_args (np : num_params) (val : value) : outcome (list value) :=
  doo args <- (match val with
               | Arr args => Ok args
               | _ => if can_accept_unary np then Ok [val] else Err InvalidOperation
               end);
  if is_valid_len np (List.length args) then Ok args else Err WrongArgumentCount.

(** Parsed::from_value.  All three operation parsers run (the arguments of Option::or are
    evaluated eagerly in the Rust code) and the first that recognises the key wins. *)
Fixpoint parse (v : value) : outcome parsed :=
  doo op <-
    (match v with
     | Obj [(key, val)] =>
         match lookup e_key eager_table key with
         | None => Ok None
         | Some e =>
             match val with
             | Arr args =>
                 if is_valid_len (e_np e) (List.length args) then
                   doo ps <- (fix go (l : list value) : outcome (list parsed) :=
                                match l with
                                | [] => Ok []
                                | x :: xs => doo p <- parse x; doo ps <- go xs; Ok (p :: ps)
                                end) args;
                   Ok (Some (POp e ps))
                 else Err WrongArgumentCount
             | _ =>
                 if can_accept_unary (e_np e) then
                   if is_valid_len (e_np e) 1 then doo p <- parse val; Ok (Some (POp e [p]))
                   else Err WrongArgumentCount
                 else Err InvalidOperation
             end
         end
     | _ => Ok None
     end);
  doo lz <-
    (match v with
     | Obj [(key, val)] =>
         match lookup l_key lazy_meta key with
         | None => Ok None
         | Some e => doo args <- op_args (l_np e) val; Ok (Some (PLazy (l_key e) args))
         end
     | _ => Ok None
     end);
  doo dt <-
    (match v with
     | Obj [(key, val)] =>
         match lookup d_key data_table key with
         | None => Ok None
         | Some e =>
             match val with
             | Arr args =>
                 if is_valid_len (d_np e) (List.length args) then
                   doo ps <- (fix go (l : list value) : outcome (list parsed) :=
                                match l with
                                | [] => Ok []
                                | x :: xs => doo p <- parse x; doo ps <- go xs; Ok (p :: ps)
                                end) args;
                   Ok (Some (PData e ps))
                 else Err WrongArgumentCount
             | _ =>
                 if can_accept_unary (d_np e) then
                   if is_valid_len (d_np e) 1 then doo p <- parse val; Ok (Some (PData e [p]))
                   else Err WrongArgumentCount
                 else Err InvalidOperation
             end
         end
     | _ => Ok None
     end);
  match op, lz, dt with
  | Some p, _, _ => Ok p
  | None, Some p, _ => Ok p
  | None, None, Some p => Ok p
  | None, None, None => Ok (PRaw v)
  end.

(** Parsed::evaluate.  The Rust recursion is on the parse tree and, through the lazy
    operators, on rule text handed back to the parser; fuel bounds its depth. *)
Fixpoint evalp (fuel : nat) (p : parsed) (data : value) : M value :=
  match fuel with
  | O => lift OutOfFuel
  | S n =>
      match p with
      | PRaw v => ret v
      | POp e args => do vs <- mapM (fun a => evalp n a data) args; e_fn e vs
      | PData e args => do vs <- mapM (fun a => evalp n a data) args; lift (d_fn e data vs)
      | PLazy key args =>
          match lookup l_key (lazy_table parsed parse (evalp n)) key with
          | Some e => l_fn e data args
          | None => lift Panic
          end
      end
  end.

(** lib.rs::apply *)
Definition apply_fuel (fuel : nat) (rule data : value) : M value :=
  do p <- lift (parse rule); evalp fuel p data.

Definition default_fuel (rule : value) : nat := S (S (vdepth rule)).

Definition apply (rule data : value) : M value := apply_fuel (default_fuel rule) rule data.
