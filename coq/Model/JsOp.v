(** * Model of src/js_op.rs and src/value.rs::to_number_value, function by function. *)
From Coq Require Import List ZArith NArith Bool Lia.
From Coq Require Import Floats.SpecFloat.
From JL Require Import Base.Json Base.Lits Base.F64 Base.Str Base.Dec2Flt Base.Flt2Dec Base.Monad.
Import ListNotations.

(** js_op::to_string *)
Fixpoint to_string (v : value) : str :=
  match v with
  | Obj _ => s_object
  | Bool b => if b then s_true else s_false
  | Null => s_null
  | Num n => num_text n
  | Str s => s
  | Arr l =>
      join s_comma
        ((fix go (l : list value) : list str :=
            match l with
            | [] => []
            | x :: xs => (match x with Null => s_empty | _ => to_string x end) :: go xs
            end) l)
  end.

(** js_op::to_primitive_number *)
Definition to_primitive_number (v : value) : option f64 :=
  match v with
  | Obj _ | Arr _ | Str _ => None
  | Bool b => Some (if b then f64_one else f64_zero)
  | Null => Some f64_zero
  | Num n => Some (as_f64 n)
  end.

Inductive primitive := PStr (s : str) | PNum (f : f64).

(** js_op::to_primitive with the Number (or Default) hint *)
Definition to_primitive (v : value) : primitive :=
  match to_primitive_number v with
  | Some f => PNum f
  | None => PStr (to_string v)
  end.

(** js_op::to_number *)
Definition to_number (v : value) : option f64 :=
  match to_primitive v with
  | PNum f => Some f
  | PStr s => str_to_number s
  end.

(** js_op::abstract_eq.  The Rust function re-enters itself after converting a boolean to
    a number or a container to a string; the re-entries are unfolded here into layers. *)
Definition eq_num_str (x : num) (s : str) : bool :=
  match str_to_number s with
  | Some y => f64_eqb (as_f64 x) y
  | None => false
  end.

Definition abstract_eq_prim (a b : value) : bool :=
  match a, b with
  | Null, Null => true
  | Num x, Num y => f64_eqb (as_f64 x) (as_f64 y)
  | Str x, Str y => str_eqb x y
  | Num x, Str y => eq_num_str x y
  | Str x, Num y => eq_num_str y x
  | _, _ => false
  end.

Definition abstract_eq_nobool (a b : value) : bool :=
  match a, b with
  | (Str _ | Num _), (Arr _ | Obj _) => abstract_eq_prim a (Str (to_string b))
  | (Arr _ | Obj _), (Str _ | Num _) => abstract_eq_prim (Str (to_string a)) b
  | _, _ => abstract_eq_prim a b
  end.

Definition bool_num (b : bool) : value := Num (Float (if b then f64_one else f64_zero)).

Definition abstract_eq (a b : value) : bool :=
  match a, b with
  | Bool x, Bool y => Bool.eqb x y
  | Bool x, _ => abstract_eq_nobool (bool_num x) b
  | _, Bool y => abstract_eq_nobool a (bool_num y)
  | _, _ => abstract_eq_nobool a b
  end.

Definition abstract_ne (a b : value) : bool := negb (abstract_eq a b).

(** js_op::strict_eq; [same_ref] is the outcome of std::ptr::eq on the two references. *)
Definition strict_eq (same_ref : bool) (a b : value) : bool :=
  if same_ref then true
  else match a, b with
       | Null, Null => true
       | Bool x, Bool y => Bool.eqb x y
       | Num x, Num y => f64_eqb (as_f64 x) (as_f64 y)
       | Str x, Str y => str_eqb x y
       | _, _ => false
       end.

Definition strict_ne (same_ref : bool) (a b : value) : bool := negb (strict_eq same_ref a b).

(** js_op::abstract_lt / abstract_gt / abstract_lte: four arms on the primitives. *)
Definition prim_cmp (fs : str -> str -> bool) (ff : f64 -> f64 -> bool) (a b : value) : bool :=
  match to_primitive a, to_primitive b with
  | PStr f, PStr s => fs f s
  | PNum f, PNum s => ff f s
  | PStr f, PNum s => match str_to_number f with Some f' => ff f' s | None => false end
  | PNum f, PStr s => match str_to_number s with Some s' => ff f s' | None => false end
  end.

Definition abstract_lt : value -> value -> bool := prim_cmp str_ltb f64_ltb.
Definition abstract_gt : value -> value -> bool :=
  prim_cmp (fun a b => str_ltb b a) (fun a b => f64_ltb b a).
Definition abstract_lte : value -> value -> bool := prim_cmp str_leb f64_leb.
Definition abstract_gte (a b : value) : bool := abstract_lte b a.

(** js_op::abstract_max / abstract_min: map to_number, fold with an early error. *)
Definition fold_num (conv : value -> option f64) (step : f64 -> f64 -> f64) (init : f64)
           (items : list value) : outcome f64 :=
  fold_left (fun acc v =>
               obind acc (fun a =>
                 match conv v with
                 | Some n => Ok (step a n)
                 | None => Err InvalidArgument
                 end)) items (Ok init).

Definition abstract_max : list value -> outcome f64 :=
  fold_num to_number (fun mx n => if f64_ltb mx n then n else mx) f64_neg_inf.
Definition abstract_min : list value -> outcome f64 :=
  fold_num to_number (fun mn n => if f64_ltb n mn then n else mn) f64_inf.

(** js_op::parse_float *)
Definition parse_float (v : value) : option f64 :=
  match v with
  | Num n => Some (as_f64 n)
  | Str s => parse_float_string s
  | _ => parse_float_string (to_string v)
  end.

Definition parse_float_add : list value -> outcome f64 := fold_num parse_float f64_add f64_zero.
Definition parse_float_mul : list value -> outcome f64 := fold_num parse_float f64_mul f64_one.

(** js_op::abstract_minus / abstract_div / abstract_mod *)
Definition num_binop (op : f64 -> f64 -> f64) (a b : value) : outcome f64 :=
  match to_number a, to_number b with
  | None, _ => Err InvalidArgument
  | _, None => Err InvalidArgument
  | Some x, Some y => Ok (op x y)
  end.

Definition abstract_minus := num_binop f64_sub.
Definition abstract_div := num_binop f64_div.
Definition abstract_mod := num_binop f64_rem.

(** js_op::to_negative *)
Definition to_negative (v : value) : outcome f64 :=
  match to_number v with
  | Some x => Ok (f64_mul f64_minus_one x)
  | None => Err InvalidArgument
  end.

(** js_op::abstract_plus (a public helper; no operator uses it) *)
Definition abstract_plus (a b : value) : value :=
  match to_primitive_number a, to_primitive_number b with
  | Some f, Some s =>
      match num_from_f64 (f64_add f s) with
      | Some n => Num n
      | None => Null
      end
  | _, _ => Str (to_string a ++ to_string b)
  end.

(** value::to_number_value *)
Definition to_number_value (f : f64) : outcome value :=
  if fract_is_zero f && f64_leb (f64_of_Z (- two63)) f && f64_ltb f (f64_of_Z two63)
  then Ok (Num (num_of_i64 (f64_as_i64 f)))
  else if fract_is_zero f && f64_leb f64_zero f && f64_ltb f (f64_of_Z two64)
  then Ok (Num (num_of_u64 (f64_as_u64 f)))
  else match num_from_f64 f with
       | Some n => Ok (Num n)
       | None => Err UnexpectedError
       end.
