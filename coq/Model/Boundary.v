(** * Models of the boundaries: src/bin.rs (the jsonlogic command) and
      py/jsonlogic_rs/__init__.py + src/lib.rs::python_iface (the Python module).
      What lies outside the crate - serde_json's text parser, clap, process exit codes, CPython's
      json module - enters as data: the harness supplies, per case, what the text parser made of
      each text (an oracle), and the observed process / interpreter behaviour. *)
From Coq Require Import List ZArith NArith Bool.
From JL Require Import Base.Json Base.Str Base.JsonText Base.Monad Model.Eval.
Import ListNotations.

(** the result of serde_json::from_str on a text *)
Definition parsed_text := option value.

(** ** src/bin.rs::main : stdout lines and exit status *)
Definition cli (logic data : parsed_text) : list str * N :=
  match logic with
  | None => ([], 1%N)                           (* "Could not parse logic as JSON" *)
  | Some r =>
      match data with
      | None => ([], 1%N)                       (* "Could not parse data as JSON" *)
      | Some d =>
          match apply r d with
          | (logs, Ok v) => (map json_text logs ++ [json_text v], 0%N)
          | (logs, Err _) => (map json_text logs, 1%N)      (* "Could not execute logic" *)
          | (logs, _) => (map json_text logs, 101%N)        (* a panic would end the process with 101 *)
          end
      end
  end.

(** how the data text reaches main: second argument, or stdin when absent or "-" *)
Inductive data_form := AsArgument | StdinNoArgument | StdinDash.

(** in all three forms the same text is parsed *)
Definition cli_form (_ : data_form) (logic data : parsed_text) : list str * N := cli logic data.

(** ** the Python module *)
Inductive py_outcome :=
| PyReturn (text : str)          (* the native module's result text, handed to the deserializer *)
| PyValueError
| PyOtherException.

(** src/lib.rs::python_iface::apply + py_apply: both texts parsed, library called, Err -> ValueError *)
Definition py_native (value data : parsed_text) : py_outcome :=
  match value, data with
  | Some r, Some d =>
      match apply r d with
      | (_, Ok v) => PyReturn (json_text v)
      | (_, Err _) => PyValueError
      | (_, _) => PyOtherException            (* a panic surfaces as SystemError *)
      end
  | _, _ => PyValueError
  end.

(** __init__.py::apply(value, data=None, ...): both arguments serialised (data omitted = None =
    "null"), native apply, deserialised;  apply_serialized(value, data=None, ...): data omitted = "null" *)
Definition null_text : parsed_text := Some Null.

Definition py_apply (value : parsed_text) (data : option parsed_text) : py_outcome :=
  py_native value (match data with Some d => d | None => null_text end).
