(** * Types of the operator tables (the tables themselves are generated: Gen/OpTable.v). *)
From Coq Require Import List String NArith.
From JL Require Import Base.Json Base.Monad Model.Ops.
Import ListNotations.

Inductive num_params :=
| NPNone
| NPAny
| NPUnary
| NPExactly (n : nat)
| NPAtLeast (n : nat)
| NPVariadic (lo hi : nat).      (* [lo, hi) *)

(** Operator: eager, operands evaluated first; may write a log line. *)
Record eager_entry := mk_eager {
  e_key : str; e_symbol : str; e_np : num_params; e_binding : string;
  e_fn : list value -> M value }.

(** DataOperator: eager operands plus the data. *)
Record data_entry := mk_data {
  d_key : str; d_symbol : str; d_np : num_params; d_binding : string;
  d_fn : value -> list value -> outcome value }.

(** LazyOperator: raw operands plus the data; already instantiated with the evaluator. *)
Record lazy_entry := mk_lazy {
  l_key : str; l_symbol : str; l_np : num_params; l_binding : string;
  l_fn : value -> list value -> M value }.

Definition pure (f : list value -> outcome value) : list value -> M value :=
  fun items => lift (f items).

(** phf::Map::get: exact match on the key. *)
Fixpoint lookup {A} (key_of : A -> str) (tbl : list A) (k : str) : option A :=
  match tbl with
  | [] => None
  | e :: rest => if str_eqb (key_of e) k then Some e else lookup key_of rest k
  end.
