(** * The single-pass reference semantics: recursion on the rule's syntax only, operands
      evaluated where the properties say they are, operator meaning from Spec/OpSpecs.v.
      By construction, data and computed values are never interpreted as logic (C04). *)
From Coq Require Import List ZArith NArith Bool Lia.
From JL Require Import Base.Json Base.Lits Base.F64 Base.Str Base.Monad.
From JL Require Import Spec.Specs Spec.OpSpecs.
Import ListNotations.
Local Open Scope m_scope.

Definition is_lazy (o : opname) : bool :=
  match o with
  | OIf | OTernary | OOr | OAnd | OMap | OFilter | OReduce | OAll | OSome | ONone => true
  | _ => false
  end.

(** operands written without brackets: {op: x} means {op: [x]} *)
Definition operands (operand : value) : list value :=
  match operand with Arr l => l | x => [x] end.

(** An expression is well formed when every operation in eagerly evaluated position has a
    documented operand count (lazily evaluated operands are checked when they are reached). *)
Fixpoint wf_rule (r : value) : outcome unit :=
  match r with
  | Obj [(k, operand)] =>
      match name_of k with
      | None => Ok tt
      | Some o =>
          match operand with
          | Arr args =>
              if documented o (length args) then
                if is_lazy o then Ok tt
                else (fix go (l : list value) : outcome unit :=
                        match l with [] => Ok tt | x :: xs => doo _u <- wf_rule x; go xs end) args
              else Err WrongArgumentCount
          | x => if documented o 1 then (if is_lazy o then Ok tt else wf_rule x) else Err WrongArgumentCount
          end
      end
  | _ => Ok tt
  end.

(** operators whose operands are evaluated first *)
Definition eager_spec (o : opname) (d : value) (vs : list value) : M value :=
  match o, vs with
  | OEq, [a; b] => ret (Bool (es_eq a b))
  | ONe, [a; b] => ret (Bool (negb (es_eq a b)))
  | OSeq, [a; b] => ret (Bool (es_strict_eq a b))
  | OSne, [a; b] => ret (Bool (negb (es_strict_eq a b)))
  | ONot, [a] => ret (Bool (negb (truthy_spec a)))
  | ONotNot, [a] => ret (Bool (truthy_spec a))
  | (OLt | OLe | OGt | OGe), [a; b] => ret (Bool (rel_spec o a b))
  | (OLt | OLe | OGt | OGe), [a; b; c] => ret (Bool (rel_spec o a b && rel_spec o b c))
  | (OAdd | OSub | OMul | ODiv | OMod | OMax | OMin), _ => lift (arith_spec o vs)
  | OMerge, _ => ret (Arr (merge_spec vs))
  | OIn, [a; b] => lift (in_spec a b)
  | OCat, _ => ret (Str (cat_spec vs))
  | OSubstr, _ => lift (substr_op_spec vs)
  | OLog, [a] => ([a], Ok a)
  | OVar, _ => lift (var_spec d vs)
  | OMissing, _ => lift (missing_spec d vs)
  | OMissingSome, [Num n; Arr keys] =>
      match as_u64 n with
      | Some need => lift (missing_some_spec d need keys)
      | None => fail InvalidArgument
      end
  | OMissingSome, _ => fail InvalidArgument
  | _, _ => fail WrongArgumentCount
  end.

Section LazyDispatch.
  Variable ev : value -> value -> M value.

  Definition lazy_spec (o : opname) (d : value) (args : list value) : M value :=
    match o, args with
    | (OIf | OTernary), _ => if_spec ev d args
    | OOr, _ => or_spec ev d args
    | OAnd, _ => and_spec ev d args
    | OMap, [c; e] => map_spec ev wf_rule d c e
    | OFilter, [c; e] => filter_spec ev wf_rule d c e
    | OReduce, [c; e; i] => reduce_spec ev wf_rule d c e i
    | OAll, [c; p] => quant_spec ev wf_rule true d c p
    | OSome, [c; p] => quant_spec ev wf_rule false d c p
    | ONone, [c; p] => none_spec ev wf_rule d c p
    | _, _ => fail WrongArgumentCount
    end.
End LazyDispatch.

Fixpoint ref_eval (r : value) (d : value) {struct r} : M value :=
  match r with
  | Obj [(k, operand)] =>
      match name_of k with
      | None => ret r
      | Some o =>
          match operand with
          | Arr args =>
              if documented o (length args) then
                if is_lazy o then lazy_spec (fun a d' => ref_eval a d') o d args
                else do vs <- mapM (fun a => ref_eval a d) args; eager_spec o d vs
              else fail WrongArgumentCount
          | x =>
              if documented o 1 then
                if is_lazy o then ref_eval x d        (* if / ?: / or / and on one operand *)
                else do v <- ref_eval x d; eager_spec o d [v]
              else fail WrongArgumentCount
          end
      end
  | _ => ret r
  end.
