(** * Specification-level meaning of every operator (what the properties say). *)
From Coq Require Import List ZArith NArith Bool Lia.
From Coq Require Import Floats.SpecFloat.
From JL Require Import Base.Json Base.Lits Base.F64 Base.Str Base.Dec2Flt Base.Flt2Dec Base.Monad.
From JL Require Import Spec.Specs.
Import ListNotations.
Local Open Scope m_scope.

(** ** C10 arithmetic *)
Definition es_parse_float (v : value) : option f64 :=
  match v with
  | Num n => Some (as_f64 n)
  | Str s => es_parse_float_str s
  | _ => es_parse_float_str (to_string_spec v)
  end.

(** every operand converted, or None when one of them is not numeric *)
Fixpoint convert_all (conv : value -> option f64) (vs : list value) : option (list f64) :=
  match vs with
  | [] => Some []
  | v :: r => match conv v, convert_all conv r with
              | Some x, Some xs => Some (x :: xs)
              | _, _ => None
              end
  end.

(** the double an arithmetic operator denotes; None when an operand is not numeric *)
Definition arith_value (o : opname) (vs : list value) : option f64 :=
  match o with
  | OAdd => option_map (fun xs => fold_left f64_add xs f64_zero) (convert_all es_parse_float vs)
  | OMul => option_map (fun xs => fold_left f64_mul xs f64_one) (convert_all es_parse_float vs)
  | OSub => match convert_all es_to_number vs with
            | Some [x] => Some (f64_mul f64_minus_one x)     (* negation: the exact product with -1 *)
            | Some [x; y] => Some (f64_sub x y)
            | _ => None
            end
  | ODiv => match convert_all es_to_number vs with Some [x; y] => Some (f64_div x y) | _ => None end
  | OMod => match convert_all es_to_number vs with Some [x; y] => Some (f64_rem x y) | _ => None end
  | OMin => option_map (fun xs => fold_left (fun m x => if f64_ltb x m then x else m) xs f64_inf)
                       (convert_all es_to_number vs)
  | OMax => option_map (fun xs => fold_left (fun m x => if f64_ltb m x then x else m) xs f64_neg_inf)
                       (convert_all es_to_number vs)
  | _ => None
  end.

(** [num_matches f n]: the JSON number n is numerically equal to the double f (0 and -0 being the
    same number), and is spelled as an integer exactly when f is integral and fits 64 bits. *)
Definition fits_64 (f : f64) : bool :=
  fract_is_zero f && f64_leb (f64_of_Z (- two63)) f && f64_ltb f (f64_of_Z two64).

Definition num_matches (f : f64) (n : num) : bool :=
  if fits_64 f then
    match n with
    | PosInt u => Z.eqb (Z.of_N u) (f64_trunc_Z f)
    | NegInt i => Z.eqb i (f64_trunc_Z f) && (i <? 0)%Z
    | Float _ => false
    end
  else match n with
       | Float g => f64_eqb f g
       | _ => false
       end.

(** the result an arithmetic operator must give: a matching number, or an error exactly when an
    operand is not numeric or the double is not finite *)
Definition arith_result_ok (o : opname) (vs : list value) (res : option value) : bool :=
  match arith_value o vs with
  | Some f =>
      if is_finite f then match res with Some (Num n) => num_matches f n | _ => false end
      else match res with None => true | Some _ => false end
  | None => match res with None => true | Some _ => false end
  end.

(** a canonical result (used by the reference evaluator) *)
Definition canonical_num (f : f64) : outcome value :=
  if negb (is_finite f) then Err UnexpectedError
  else if fits_64 f then
    let z := f64_trunc_Z f in
    Ok (Num (if (z <? 0)%Z then NegInt z else PosInt (Z.to_N z)))
  else Ok (Num (Float f)).

Definition arith_spec (o : opname) (vs : list value) : outcome value :=
  match arith_value o vs with
  | Some f => canonical_num f
  | None => Err InvalidArgument
  end.

(** ** C09 relational operators on 2 or 3 operands *)
Definition rel_spec (o : opname) (a b : value) : bool :=
  match o with
  | OLt => es_lt a b
  | OLe => es_le a b
  | OGt => es_lt b a
  | OGe => es_le b a
  | _ => false
  end.

(** ** C15 merge / in *)
Definition merge_spec (vs : list value) : list value :=
  flat_map (fun v => match v with Arr l => l | _ => [v] end) vs.

(** deep equality: numbers by numeric value whatever their spelling, arrays element by element,
    objects as maps (same size, every key of one bound in the other to an equal value - so the
    order of keys is irrelevant) *)
Fixpoint json_eq (a b : value) {struct a} : bool :=
  match a, b with
  | Null, Null => true
  | Bool x, Bool y => Bool.eqb x y
  | Num x, Num y => f64_eqb (as_f64 x) (as_f64 y)
  | Str x, Str y => str_eqb x y
  | Arr x, Arr y =>
      Nat.eqb (length x) (length y) &&
      (fix go (x y : list value) {struct x} : bool :=
         match x, y with
         | a' :: x', b' :: y' => json_eq a' b' && go x' y'
         | _, _ => true
         end) x y
  | Obj x, Obj y =>
      Nat.eqb (length x) (length y) &&
      (fix go (x : list (str * value)) {struct x} : bool :=
         match x with
         | [] => true
         | (k, a') :: x' =>
             (match obj_get y k with Some b' => json_eq a' b' | None => false end) && go x'
         end) x
  | _, _ => false
  end.

Fixpoint is_prefix (p s : str) : bool :=
  match p, s with
  | [], _ => true
  | x :: p', y :: s' => N.eqb x y && is_prefix p' s'
  | _ :: _, [] => false
  end.

Fixpoint is_infix (needle hay : str) : bool :=
  is_prefix needle hay || match hay with [] => false | _ :: h => is_infix needle h end.

Definition in_spec (needle hay : value) : outcome value :=
  match hay with
  | Str h => match needle with Str n => Ok (Bool (is_infix n h)) | _ => Err InvalidArgument end
  | Arr l => Ok (Bool (existsb (fun p => json_eq p needle) l))
  | Null => Ok (Bool false)
  | _ => Err InvalidArgument
  end.

(** ** C16 cat / substr *)
Definition cat_spec (vs : list value) : str := concat (map to_string_spec vs).

Definition substr_spec (s : str) (i : Z) (len : option Z) : str :=
  let n := Z.of_nat (length s) in
  let start := if (0 <=? i)%Z then Z.min i n else Z.max 0 (n + i) in
  let stop := match len with
              | None => n
              | Some l => if (0 <=? l)%Z then Z.min n (start + l) else Z.max 0 (n + l)
              end in
  if (start <? stop)%Z then firstn (Z.to_nat (stop - start)) (skipn (Z.to_nat start) s) else [].

Definition int_operand (v : value) : option Z :=
  match v with Num n => as_i64 n | _ => None end.

Definition substr_op_spec (vs : list value) : outcome value :=
  match vs with
  | [Str s; i] => match int_operand i with
                  | Some i' => Ok (Str (substr_spec s i' None))
                  | None => Err InvalidArgument
                  end
  | [Str s; i; l] => match int_operand i, int_operand l with
                     | Some i', Some l' => Ok (Str (substr_spec s i' (Some l')))
                     | _, _ => Err InvalidArgument
                     end
  | _ => Err InvalidArgument
  end.

(** ** C11 var *)
Inductive ptoken := PDot | PLit (c : N).

(** a backslash makes the next character literal; an unescaped dot separates *)
Fixpoint tokenize (s : str) : list ptoken :=
  match s with
  | [] => []
  | c :: r =>
      if (c =? 92)%N then match r with
                         | [] => []                         (* a trailing backslash escapes nothing *)
                         | c' :: r' => PLit c' :: tokenize r'
                         end
      else if (c =? 46)%N then PDot :: tokenize r
      else PLit c :: tokenize r
  end.

Fixpoint segments (ts : list ptoken) (cur : str) : list str :=
  match ts with
  | [] => [cur]
  | PDot :: r => cur :: segments r []
  | PLit c :: r => segments r (cur ++ [c])
  end.

(** the path's segments; an empty final segment is ignored *)
Definition split_spec (p : str) : list str :=
  let segs := segments (tokenize p) [] in
  match rev segs with
  | [] :: r => rev r
  | _ => segs
  end.

Definition index_spec {A} (l : list A) (i : Z) : option A :=
  let n := Z.of_nat (length l) in
  let j := if (0 <=? i)%Z then i else (n + i)%Z in
  if ((0 <=? j) && (j <? n))%Z then nth_error l (Z.to_nat j) else None.

Definition step_spec (v : value) (seg : str) : option value :=
  match v with
  | Obj m => obj_get m seg
  | Arr l => match parse_i64 seg with Some i => index_spec l i | None => None end
  | Str s => match parse_i64 seg with
             | Some i => option_map (fun c => Str [c]) (index_spec s i)
             | None => None
             end
  | _ => None
  end.

Fixpoint resolve (segs : list str) (v : value) : option value :=
  match segs with
  | [] => Some v
  | seg :: r => match step_spec v seg with Some v' => resolve r v' | None => None end
  end.

(** what a key operand finds in the data: Ok None = absent *)
Definition lookup_spec (d : value) (key : value) : outcome (option value) :=
  match key with
  | Null => Ok (Some d)
  | Str [] => Ok (Some d)
  | Str p => Ok (match d with
                 | Obj _ | Arr _ | Str _ => resolve (split_spec p) d
                 | _ => None
                 end)
  | Num n =>
      match as_i64 n with
      | Some i => Ok (match d with
                      | Obj m => obj_get m (Z_text i)
                      | Arr l => index_spec l i
                      | Str s => option_map (fun c => Str [c]) (index_spec s i)
                      | _ => None
                      end)
      | None => Err InvalidVariableKey
      end
  | _ => Err InvalidVariableKey
  end.

Definition var_spec (d : value) (args : list value) : outcome value :=
  match args with
  | [] => Ok d
  | key :: rest =>
      doo found <- lookup_spec d key;
      match found with
      | Some v => Ok v
      | None => match rest with [] => Ok Null | dflt :: _ => Ok dflt end
      end
  end.

(** ** C12 missing / missing_some *)
Definition is_null (v : value) : bool := match v with Null => true | _ => false end.

(** keys (in request order) whose lookup finds nothing; an invalid key is an error *)
Fixpoint missing_keys (d : value) (keys : list value) : outcome (list value) :=
  match keys with
  | [] => Ok []
  | k :: r =>
      doo found <- lookup_spec d k;
      doo rest <- missing_keys d r;
      Ok (if is_null k then rest else match found with None => k :: rest | Some _ => rest end)
  end.

Definition missing_spec (d : value) (args : list value) : outcome value :=
  let keys := match args with Arr l :: _ => l | _ => args end in
  doo m <- missing_keys d keys; Ok (Arr m).

Fixpoint dedup (l : list value) (seen : list value) : list value :=
  match l with
  | [] => []
  | x :: r => if existsb (fun s => value_serde_eqb s x) seen then dedup r seen else x :: dedup r (x :: seen)
  end.

Definition count_present (d : value) (keys : list value) : nat :=
  length (filter (fun k => negb (is_null k) &&
                           match lookup_spec d k with Ok (Some _) => true | _ => false end) keys).

Definition valid_key (k : value) : bool :=
  match k with
  | Null | Str _ => true
  | Num n => match as_i64 n with Some _ => true | None => false end
  | _ => false
  end.

(** For key lists of valid keys: empty when enough keys are present, else the distinct missing
    keys in order.  (Where the property is silent - a list containing an invalid key - the code's
    convention is followed: it is an error unless the threshold is already met before that key.) *)
Definition missing_some_spec (d : value) (need : N) (keys : list value) : outcome value :=
  match missing_keys d keys with
  | Ok m => if (need <=? N.of_nat (count_present d keys))%N then Ok (Arr []) else Ok (Arr (dedup m []))
  | _ => if (need <=? N.of_nat (count_present d (take_while valid_key keys)))%N
         then Ok (Arr []) else Err InvalidVariableKey
  end.

(** ** Lazy operators, for any operand evaluator [ev] (C05, C13, C14) *)
Section LazySpecs.
  Variable ev : value -> value -> M value.      (* evaluate an operand expression against data *)

  Fixpoint if_spec (d : value) (args : list value) : M value :=
    match args with
    | [] => ret Null
    | [a] => ev a d
    | c :: b :: rest => do v <- ev c d; if truthy_spec v then ev b d else if_spec d rest
    end.

  Fixpoint or_spec (d : value) (args : list value) : M value :=
    match args with
    | [] => fail UnexpectedError
    | [a] => ev a d
    | a :: rest => do v <- ev a d; if truthy_spec v then ret v else or_spec d rest
    end.

  Fixpoint and_spec (d : value) (args : list value) : M value :=
    match args with
    | [] => fail UnexpectedError
    | [a] => ev a d
    | a :: rest => do v <- ev a d; if truthy_spec v then and_spec d rest else ret v
    end.

  Definition coll_spec (v : value) : outcome (list value) :=
    match v with Arr l => Ok l | Null => Ok [] | _ => Err InvalidArgument end.

  Section Iter.
    Variable p : value -> M bool.
    Fixpoint filterM (l : list value) : M (list value) :=
      match l with
      | [] => ret []
      | x :: r => do keep <- p x; do rest <- filterM r; ret (if keep then x :: rest else rest)
      end.
    Fixpoint forallM (l : list value) : M bool :=
      match l with
      | [] => ret true
      | x :: r => do b <- p x; if b then forallM r else ret false
      end.
    Fixpoint existsM (l : list value) : M bool :=
      match l with
      | [] => ret false
      | x :: r => do b <- p x; if b then ret true else existsM r
      end.
  End Iter.

  Section Fold.
    Variable f : value -> value -> M value.
    Fixpoint foldM (l : list value) (acc : value) : M value :=
      match l with
      | [] => ret acc
      | x :: r => do acc' <- f acc x; foldM r acc'
      end.
  End Fold.

  (** a parse error of the element expression is raised even if the collection is empty: the
      expression is checked (evaluated against null) when there is nothing to apply it to *)
  Variable check : value -> outcome unit.       (* is this expression well formed? *)

  Definition map_spec (d : value) (coll e : value) : M value :=
    do c <- ev coll d;
    do xs <- lift (coll_spec c);
    do _u <- lift (check e);
    do ys <- mapM (fun x => ev e x) xs;
    ret (Arr ys).

  Definition filter_spec (d : value) (coll e : value) : M value :=
    do c <- ev coll d;
    do xs <- lift (coll_spec c);
    do _u <- lift (check e);
    do ys <- filterM (fun x => do v <- ev e x; ret (truthy_spec v)) xs;
    ret (Arr ys).

  Definition reduce_ctx_spec (cur acc : value) : value :=
    Obj [(s_accumulator, acc); (s_current, cur)].

  Definition reduce_spec (d : value) (coll e init : value) : M value :=
    do c <- ev coll d;
    do i <- ev init d;
    do xs <- lift (coll_spec c);
    do _u <- lift (check e);
    foldM (fun acc x => ev e (reduce_ctx_spec x acc)) xs i.

  (** all/some/none: the collection is a literal array (element expressions evaluated against the
      outer data as they are reached), or the value of an operation, or a literal string/null *)
  Definition quant_coll (v : value) : outcome (list value) :=
    match v with
    | Arr l => Ok l
    | Str s => Ok (map (fun c => Str [c]) s)
    | Null => Ok []
    | _ => Err InvalidArgument
    end.

  Definition quant_run (is_all : bool) (get : value -> M value) (pred : value) (items : list value) : M value :=
    match items with
    | [] => ret (Bool false)
    | _ =>
        do _u <- lift (check pred);
        let test := fun i => do x <- get i; do r <- ev pred x; ret (truthy_spec r) in
        do b <- (if is_all then forallM test items else existsM test items);
        ret (Bool b)
    end.

  Definition quant_spec (is_all : bool) (d : value) (coll pred : value) : M value :=
    match coll with
    | Arr items => quant_run is_all (fun i => ev i d) pred items       (* literal: elements are expressions *)
    | Obj _ => do v <- ev coll d; do items <- lift (quant_coll v); quant_run is_all (fun i => ret i) pred items
    | _ => do items <- lift (quant_coll coll); quant_run is_all (fun i => ret i) pred items
    end.

  Definition none_spec (d : value) (coll pred : value) : M value :=
    do r <- quant_spec false d coll pred;
    match r with Bool b => ret (Bool (negb b)) | _ => fail UnexpectedError end.
End LazySpecs.
