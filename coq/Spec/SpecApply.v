(** * spec_apply: does an observed result of apply(rule, data) satisfy property p's specification? *)
From Coq Require Import List ZArith NArith Bool.
From JL Require Import Base.Json Base.Monad Spec.Specs.
Import ListNotations.

Definition spec_apply (p : prop_id) (rule data : value) (logs : list str) (res : option value) : bool :=
  match p with
  | P_C02 =>
      if is_operation rule then true
      else match res, logs with
           | Some v, [] => value_same v rule
           | _, _ => false
           end
  | _ => true
  end.
