(** * spec_apply: does an observed result of apply(rule, data) satisfy the specification?
      The observation is compared with the reference semantics [ref_eval]: the same value and
      the same log lines when it succeeds, an error when it fails (see [matches_ref] for what is
      said about lines logged before failing). *)
From Coq Require Import List ZArith NArith Bool.
From JL Require Import Base.Json Base.Str Base.JsonText Base.Monad Spec.Specs Spec.OpSpecs Spec.RefEval.
Import ListNotations.

Fixpoint lines_eqb (a b : list str) : bool :=
  match a, b with
  | [], [] => true
  | x :: a', y :: b' => str_eqb x y && lines_eqb a' b'
  | _, _ => false
  end.

(** [a] is a prefix of [b] *)
Fixpoint lines_prefixb (a b : list str) : bool :=
  match a, b with
  | [], _ => true
  | x :: a', y :: b' => str_eqb x y && lines_prefixb a' b'
  | _ :: _, [] => false
  end.

(** On failure, which error it is is not constrained, and an implementation may fail earlier
    than the reference semantics does (it may reject a malformed operand before evaluating its
    neighbours) - but it may not have logged anything the reference semantics would not have
    logged before failing: the lines observed are a prefix of the reference trace. *)
Definition matches_ref (rule data : value) (logs : list str) (res : option value) : bool :=
  match ref_eval rule data, res with
  | (t, Ok v), Some v' => value_same v v' && lines_eqb (map json_text t) logs
  | (t, Err _), None => lines_prefixb logs (map json_text t)
  | _, _ => false
  end.

Definition spec_apply (p : prop_id) (rule data : value) (logs : list str) (res : option value) : bool :=
  matches_ref rule data logs res &&
  match p with
  | P_C02 =>
      (* a value that is not an operation evaluates to itself and writes nothing *)
      if is_operation rule then true
      else match res, logs with
           | Some v, [] => value_same v rule
           | _, _ => false
           end
  | _ => true
  end.
