(** * Specifications S: what the properties say, written independently of the code's structure. *)
From Coq Require Import List ZArith NArith Bool Lia.
From Coq Require Import Floats.SpecFloat.
From JL Require Import Base.Json Base.Lits Base.F64 Base.Str Base.Dec2Flt Base.Flt2Dec Base.Monad.
Import ListNotations.

Inductive prop_id :=
| P_C01 | P_C02 | P_C03 | P_C04 | P_C05 | P_C06 | P_C07 | P_C08 | P_C09 | P_C10
| P_C11 | P_C12 | P_C13 | P_C14 | P_C15 | P_C16 | P_C17 | P_C18 | P_C19.

(** ** JavaScript ToString on JSON values (C16, and ToPrimitive of containers) *)
Fixpoint to_string_spec (v : value) : str :=
  match v with
  | Null => s_null
  | Bool true => s_true
  | Bool false => s_false
  | Num n => num_text n                       (* "a number's string form is its JSON text" *)
  | Str s => s
  | Obj _ => s_object
  | Arr l => join s_comma (map (fun x => match x with Null => [] | _ => to_string_spec x end) l)
  end.

(** ** StringToNumber (ECMA-262 StringNumericLiteral), None = NaN.
    Written as a recogniser by splitting, not as a scanner. *)
Local Open Scope N_scope.

Fixpoint split_at (p : N -> bool) (s : str) : str * option str :=
  (* the part before the first character satisfying p, and the part after it *)
  match s with
  | [] => ([], None)
  | c :: r => if p c then ([], Some r)
              else let '(a, b) := split_at p r in (c :: a, b)
  end.

Definition all_digits (s : str) : bool := forallb is_digit s.
Definition nonempty {A} (l : list A) : bool := match l with [] => false | _ => true end.

(** StrUnsignedDecimalLiteral other than Infinity: its value, if [s] is one. *)
Definition unsigned_decimal_value (s : str) : option f64 :=
  let '(mant, exp) := split_at (fun c => (c =? 101) || (c =? 69)) s in
  let '(ip, fp) := split_at (fun c => c =? 46) mant in
  let fpd := match fp with Some f => f | None => [] end in
  let mant_ok := all_digits ip && all_digits fpd && (nonempty ip || nonempty fpd) in
  let exp_val :=
    match exp with
    | None => Some 0%Z
    | Some e =>
        let '(neg, ds) := match e with
                          | 45 :: r => (true, r)
                          | 43 :: r => (false, r)
                          | _ => (false, e)
                          end in
        if nonempty ds && all_digits ds
        then Some (if neg then (- digits_val ds)%Z else digits_val ds)
        else None
    end in
  match mant_ok, exp_val with
  | true, Some e => Some (dec_to_f64_pos (digits_val (ip ++ fpd)) (e - Z.of_nat (length fpd))%Z)
  | _, _ => None
  end.

(** StrDecimalLiteral: optional sign, then Infinity or an unsigned decimal literal. *)
Definition decimal_value (s : str) : option f64 :=
  let '(neg, u) := match s with
                   | 45 :: r => (true, r)
                   | 43 :: r => (false, r)
                   | _ => (false, s)
                   end in
  let mag := if str_eqb u s_Infinity then Some (S754_infinity false) else unsigned_decimal_value u in
  match mag with
  | Some m => Some (if neg then SFopp m else m)
  | None => None
  end.

Definition radix_literal_value (s : str) : option (option f64) :=
  (* Some r when [s] starts with a radix prefix; r is its value or NaN *)
  match s with
  | 48 :: c :: ds =>
      let radix := if (c =? 120) || (c =? 88) then Some 16
                   else if (c =? 111) || (c =? 79) then Some 8
                   else if (c =? 98) || (c =? 66) then Some 2 else None in
      match radix with
      | Some rdx =>
          Some (if nonempty ds && forallb (fun d => match to_digit rdx d with Some _ => true | None => false end) ds
                then match radix_value rdx ds 0%Z with Some z => Some (f64_of_Z z) | None => None end
                else None)
      | None => None
      end
  | _ => None
  end.

Definition es_str_to_number (s0 : str) : option f64 :=
  let s := trim_both is_js_ws s0 in
  match s with
  | [] => Some f64_zero
  | _ => match radix_literal_value s with
         | Some r => r
         | None => decimal_value s
         end
  end.

(** parseFloat: the value of the longest prefix (after leading white space) that is a StrDecimalLiteral *)
Fixpoint longest_prefix_value (n : nat) (s : str) : option f64 :=
  match decimal_value (firstn n s) with
  | Some v => Some v
  | None => match n with O => None | S k => longest_prefix_value k s end
  end.

Definition es_parse_float_str (s : str) : option f64 :=
  let t := trim_start is_js_ws s in longest_prefix_value (length t) t.

(** ** ToNumber, ToPrimitive *)
Definition is_container (v : value) : bool := match v with Arr _ | Obj _ => true | _ => false end.

Definition es_to_number (v : value) : option f64 :=
  match v with
  | Null => Some f64_zero
  | Bool b => Some (if b then f64_one else f64_zero)
  | Num n => Some (as_f64 n)
  | Str s => es_str_to_number s
  | Arr _ | Obj _ => es_str_to_number (to_string_spec v)
  end.

Definition to_primitive_spec (v : value) : value :=
  if is_container v then Str (to_string_spec v) else v.

(** ** Abstract equality (C07).  On primitives: null equals only null; two strings compare as
    strings; every other combination of boolean/number/string compares numerically.  A container
    meets a primitive through its string form and never equals another container. *)
Definition prim_eq (p q : value) : bool :=
  match p, q with
  | Null, Null => true
  | Null, _ | _, Null => false
  | Str x, Str y => str_eqb x y
  | _, _ => match es_to_number p, es_to_number q with
            | Some x, Some y => f64_eqb x y
            | _, _ => false
            end
  end.

Definition es_eq (a b : value) : bool :=
  if is_container a && is_container b then false
  else prim_eq (to_primitive_spec a) (to_primitive_spec b).

(** ** Strict equality (C08): same primitive type and value; containers are distinct instances. *)
Definition es_strict_eq (a b : value) : bool :=
  match a, b with
  | Null, Null => true
  | Bool x, Bool y => Bool.eqb x y
  | Num x, Num y => f64_eqb (as_f64 x) (as_f64 y)
  | Str x, Str y => str_eqb x y
  | _, _ => false
  end.

(** ** Relational comparison (C09): None when a conversion is NaN. *)
Definition es_compare (a b : value) : option comparison :=
  match to_primitive_spec a, to_primitive_spec b with
  | Str x, Str y => Some (if str_ltb x y then Lt else if str_eqb x y then Eq else Gt)
  | p, q => match es_to_number p, es_to_number q with
            | Some x, Some y => f64_compare x y
            | _, _ => None
            end
  end.

Definition es_lt (a b : value) : bool := match es_compare a b with Some Lt => true | _ => false end.
Definition es_le (a b : value) : bool := match es_compare a b with Some Lt | Some Eq => true | _ => false end.

(** ** Truthiness (C06) *)
Definition truthy_spec (v : value) : bool :=
  match v with
  | Bool false | Null | Str [] | Arr [] => false
  | Num n => negb (f64_eqb (as_f64 n) f64_zero)
  | _ => true
  end.

(** ** Operator names (C02): the 35 names are written out in Base/Lits.v *)
Fixpoint name_lookup (l : list (str * opname)) (k : str) : option opname :=
  match l with
  | [] => None
  | (n, o) :: r => if str_eqb n k then Some o else name_lookup r k
  end.

Definition name_of (k : str) : option opname := name_lookup op_names k.

Definition is_operation (v : value) : bool :=
  match v with
  | Obj [(k, _)] => match name_of k with Some _ => true | None => false end
  | _ => false
  end.

(** ** Documented operand counts (C03) *)
Definition documented (o : opname) (n : nat) : bool :=
  match o with
  | OEq | ONe | OSeq | OSne | ODiv | OMod | OIn | OMap | OFilter | OAll | OSome | ONone | OMissingSome => Nat.eqb n 2
  | OLt | OLe | OGt | OGe | OSubstr => Nat.eqb n 2 || Nat.eqb n 3
  | OReduce => Nat.eqb n 3
  | ONot | ONotNot | OLog => Nat.eqb n 1
  | OSub => Nat.eqb n 1 || Nat.eqb n 2
  | OVar => Nat.leb n 2
  | OMul | OMax | OMin | OAnd | OOr => Nat.leb 1 n
  | OAdd | OCat | OMerge | OMissing | OIf | OTernary => true
  end.
