//! C18 (the jsonlogic command) and C19 (the Python module): case generation, running the real
//! binary, and emission of the observations as Gallina terms.
use crate::coqfmt::*;
use crate::corpus::*;
use crate::gens;
use crate::prng::Rng;
use serde_json::{json, Value};
use std::io::{Read, Write};
use std::process::{Command, Stdio};

pub struct Emit {
    pub work_term: String,
    pub obs_term: String,
    pub tag: String,
    pub record: Value,
    pub crashed: bool,
}

fn parsed_term(text: &str) -> String {
    match serde_json::from_str::<Value>(text) {
        Ok(v) => format!("(Some {})", value_term(&v)),
        Err(_) => "None".to_string(),
    }
}

fn lines_term(out: &str) -> String {
    let mut lines: Vec<&str> = out.split('\n').collect();
    if lines.last() == Some(&"") {
        lines.pop();
    }
    list_term(&lines.iter().map(|l| str_term(l)).collect::<Vec<_>>())
}

/// texts that are valid JSON for v, in several layouts
fn layouts(rng: &mut Rng, v: &Value) -> String {
    match rng.below(6) {
        0 => format!(" {} ", v),
        1 => format!("\n\t{}\r\n", v),
        2 => serde_json::to_string_pretty(v).unwrap(),
        _ => v.to_string(),
    }
}

fn malformed(rng: &mut Rng, v: &Value) -> String {
    let t = v.to_string();
    match rng.below(18) {
        15 | 16 | 17 => {
            // white space (a line break above all) dropped into the middle of the text: between
            // tokens it is harmless, inside a token or a string it makes the text malformed
            let cs: Vec<char> = t.chars().collect();
            let pos = if cs.len() < 2 { 0 } else { 1 + rng.below(cs.len() - 1) };
            let ws = *rng.pick(&["\n", "\r\n", "\n", " ", "\t", "\r"]);
            let mut o: String = cs[..pos.min(cs.len())].iter().collect();
            o.push_str(ws);
            o.extend(cs[pos.min(cs.len())..].iter());
            o
        }
        0 => String::new(),
        1 => t.chars().take(t.chars().count().saturating_sub(1)).collect(),
        2 => format!("{} x", t),
        3 => format!("{}]", t),
        4 => format!("{},", t),
        5 => format!("{} {}", t, t),
        6 => "nul".into(),
        7 => "{".into(),
        8 => "1x".into(),
        9 => "'a'".into(),
        10 => format!("{}{}{}", "[".repeat(130), 1, "]".repeat(130)),
        11 => "NaN".into(),
        12 => format!("{}{}", rng.pick(&["\u{a0}", "\u{b}", "\u{c}", "\u{85}", "\u{2028}", "\u{feff}", "\u{3000}", "\u{1680}"]), t),
        13 => format!("{}{}", t, rng.pick(&["\u{a0}", "\u{b}", "\u{c}", "\u{85}", "\u{2029}", "\u{feff}", "\u{2003}"])),
        _ => format!(" {}", "-"),
    }
}

fn is_flag_like(t: &str) -> bool {
    // --help / -h / -V / --version and other non-numeric hyphen texts belong to the command's own
    // interface, not to the property's domain of rule and data texts
    t.starts_with('-') && t.trim().parse::<f64>().is_err()
}

fn run_cli(cli: &str, logic: &str, data: &str, form: usize) -> (String, i64, String) {
    let mut cmd = Command::new(cli);
    cmd.arg(logic);
    match form {
        0 => {
            cmd.arg(data);
        }
        1 => {}
        _ => {
            cmd.arg("-");
        }
    }
    cmd.stdin(Stdio::piped()).stdout(Stdio::piped()).stderr(Stdio::piped()).env_remove("RUST_BACKTRACE");
    let mut child = match cmd.spawn() {
        Ok(c) => c,
        // (the operating system refused to start the command, e.g. an argument too long)
        Err(e) => return (String::new(), 126, format!("not started: {}", e)),
    };
    // stdin is written, and both output streams are drained, on their own threads: texts longer
    // than a pipe buffer must neither block this process nor the command.  Long stdin texts are
    // written in two pieces with a pause, as a slow producer at the other end of a pipe would.
    let mut stdin = child.stdin.take().unwrap();
    // (a rule text of "-" is not a request to read the rule from stdin: a rule is waiting there to tempt it)
    let payload: Vec<u8> = if form != 0 { data.as_bytes().to_vec() } else if logic.trim() == "-" { b"{\"var\":\"a\"}".to_vec() } else { Vec::new() };
    let writer = std::thread::spawn(move || {
        if payload.len() > 1 && payload.len() % 3 == 0 {
            let mid = payload.len() / 2;
            let _ = stdin.write_all(&payload[..mid]);
            let _ = stdin.flush();
            std::thread::sleep(std::time::Duration::from_millis(40));
            let _ = stdin.write_all(&payload[mid..]);
        } else {
            let _ = stdin.write_all(&payload);
        }
        drop(stdin);
    });
    let mut so = child.stdout.take().unwrap();
    let mut se = child.stderr.take().unwrap();
    let t_out = std::thread::spawn(move || {
        let mut b = Vec::new();
        let _ = so.read_to_end(&mut b);
        b
    });
    let t_err = std::thread::spawn(move || {
        let mut b = Vec::new();
        let _ = se.read_to_end(&mut b);
        b
    });
    // a run that does not end within the limit is killed and reported with status 124
    let started = std::time::Instant::now();
    let mut killed = false;
    let status = loop {
        match child.try_wait() {
            Ok(Some(st)) => break Some(st),
            Ok(None) => {
                if started.elapsed() > std::time::Duration::from_secs(15) {
                    let _ = child.kill();
                    let _ = child.wait();
                    killed = true;
                    break None;
                }
                std::thread::sleep(std::time::Duration::from_millis(2));
            }
            Err(_) => break None,
        }
    };
    let _ = writer.join();
    let out = t_out.join().unwrap_or_default();
    let err = t_err.join().unwrap_or_default();
    if killed {
        return (String::new(), 124, "killed: no exit status within 15 s".into());
    }
    let code = status.and_then(|st| st.code()).map(|c| c as i64).unwrap_or(255);
    (String::from_utf8_lossy(&out).to_string(), code, String::from_utf8_lossy(&err).chars().take(200).collect())
}

const FORMS: [&str; 3] = ["AsArgument", "StdinNoArgument", "StdinDash"];

fn cli_case(cli: &str, tag: &str, logic: &str, data: &str, form: usize) -> (Emit, String, i64) {
    let (stdout, code, stderr) = run_cli(cli, logic, data, form);
    // "its output is valid JSON": a successful run's last line must parse
    let mut bad = false;
    if code == 0 {
        let last = stdout.trim_end_matches('\n').rsplit('\n').next().unwrap_or("");
        if serde_json::from_str::<Value>(last).is_err() || !stdout.ends_with('\n') {
            bad = true;
        }
    }
    let obs = if bad { "ObsBad".to_string() } else { format!("(ObsCli {} {})", lines_term(&stdout), code) };
    let e = Emit {
        work_term: format!("(WCli {} {} {})", FORMS[form], parsed_term(logic), parsed_term(data)),
        obs_term: obs,
        tag: tag.to_string(),
        record: json!({"tag": tag, "work": {"k": "cli", "logic_text": logic, "data_text": data, "form": FORMS[form]},
                       "obs": {"stdout": stdout, "exit": code, "stderr": stderr}}),
        crashed: !(code == 0 || code == 1) || bad,
    };
    (e, stdout, code)
}

pub fn gen_c18(rng: &mut Rng, count: usize, _thorough: bool) -> Vec<Emit> {
    let cli = std::env::var("JLH_CLI").expect("JLH_CLI");
    let mut out = Vec::new();
    let fixed: Vec<(&str, &str)> = vec![
        ("{\"+\":[{\"var\":\"\"},1]}", "-5"), ("-1", "null"), ("{\"var\":\"\"}", "-0"), ("-1.5e3", "-0"), ("{\"var\":\"a\"}", "{\"a\":1} {\"a\":2}"),
        ("{\"var\":\"a\"}", "{\"a\":1}]"), ("{\"+\":[{\"var\":\"a\"},1]}", "{\"a\":\"x\"}"), ("{\"-\":[1,2,3]}", "null"), ("{\"substr\":[1]}", "null"),
        ("{\"log\":\"a\"}", "null"), ("{\"cat\":[{\"log\":\"a\"},{\"log\":{\"var\":\"\"}}]}", "\"x\\ny\""), ("{\"if\":[{\"log\":1},{\"==\":[1]},2]}", "null"),
        ("{\"or\":[{\"var\":\"a\"},{\"log\":\"LEAK\"}]}", "{\"a\":1}"), ("", "null"), ("null", ""), ("{\"var\":\"\"}", "1e400"), ("1e-400", "null"),
        ("{\"var\":\"\"}", "9.630000000000007e+246"), ("{\"var\":\"\"}", "\"\\ud83d\\ude00\""), ("{\"var\":\"\"}", "\"\\ud83d\""), ("{\"cat\":[\"é\",{\"var\":\"\"}]}", "\"日本\""),
        ("{\"var\":\"\"}", "18446744073709551615"), ("{\"var\":\"\"}", "18446744073709551616"), ("{\"var\":\"\"}", "-9223372036854775809"),
        ("-", "{\"a\":1}"), (" - ", "{\"a\":1}"), ("{\"var\":\"k\"}", "{\"k\":\"a\u{feff}b\"}"), ("{\"cat\":[\"x\",\"\u{feff}\",\"y\"]}", "null"), ("{\"var\":\"k\"}", "\u{feff}{\"k\":1}"),
        ("{\"var\":\"\"}", "1\n2"), ("{\"var\":\"\"}", "tr\nue"), ("{\"cat\":[{\"var\":\"\"},\"!\"]}", "\"a\nb\""), ("{\"var\":\"\"}", "1\r\n2"), ("{\"var\":\"\"}", "[1,\n2]"),
        ("{\"var\":\"\"}", "{\"b\":1,\"a\":2,\"a\":3}"), ("{\"var\":\"\"}", "[1,2,]"), ("{\"var\":\"\"}", "01"), ("{\"var\":\"\"}", "1."), ("{\"var\":\"\"}", ".5"),
    ];
    for (l, d) in fixed {
        for form in 0..3 {
            out.push(cli_case(&cli, "regress", l, d, form).0);
        }
    }
    // texts longer than one read() or one pipe buffer, in all three forms, and chained
    for n in if _thorough { vec![3000usize, 5000, 35000] } else { vec![3000usize, 5000] } {
        let big: Vec<Value> = (0..n).map(|i| Value::from((i % 10) as i64)).collect();
        let dt = Value::Array(big).to_string();
        for (r, tag) in [
            (json!({"reduce": [{"var": ""}, {"+": [{"var": "current"}, {"var": "accumulator"}]}, 0]}), "big-data:sum"),
            (json!({"map": [{"var": ""}, {"+": [{"var": ""}, 1]}]}), "big-data:map"),
        ] {
            if tag == "big-data:sum" && n > 10000 {
                continue; // (reduce nests its context per element: the listed known finding)
            }
            for form in 0..3 {
                if dt.len() > 60_000 && (form != 1 || tag != "big-data:map") {
                    continue; // the one longer than a pipe buffer: once, through the pipe
                }
                let (e, stdout, code) = cli_case(&cli, tag, &r.to_string(), &dt, form);
                out.push(e);
                if code == 0 && form == 1 && dt.len() < 60_000 {
                    out.push(cli_case(&cli, "big-data:chain", "{\"some\":[{\"var\":\"\"},{\"===\":[{\"var\":\"\"},10]}]}", stdout.trim_end(), 2).0);
                }
            }
        }
    }
    while out.len() < count {
        let dd = 1 + rng.below(3);
        let mut rule = gens::rand_rule(rng, dd);
        if rng.chance(1, 3) {
            rule = op("cat", vec![op("log", vec![rand_scalar(rng)]), rule]);
        }
        let data = rand_value(rng, 2);
        let (lt, dt, tag) = match rng.below(10) {
            0 => (malformed(rng, &rule), layouts(rng, &data), "bad-logic"),
            1 => (layouts(rng, &rule), malformed(rng, &data), "bad-data"),
            2 => (layouts(rng, &var("")), format!("{}", -(rng.range(0, 1000) as f64) / 8.0), "negative-number"),
            3 => (format!("{}", -(rng.range(1, 100))), layouts(rng, &data), "negative-rule"),
            _ => (layouts(rng, &rule), layouts(rng, &data), "valid"),
        };
        if is_flag_like(&lt) || is_flag_like(&dt) || dt == "-" {
            continue;
        }
        let form = rng.below(3);
        if rng.chance(1, 3) {
            // the three forms on the same texts must agree
            for f in 0..3 {
                out.push(cli_case(&cli, &format!("{}:all-forms", tag), &lt, &dt, f).0);
            }
        } else if rng.chance(1, 4) {
            // chain: the output of one run is the data of the next
            let (e1, stdout, code) = cli_case(&cli, &format!("{}:chain-1", tag), &lt, &dt, 0);
            out.push(e1);
            if code == 0 && !is_flag_like(&stdout) {
                let r2 = match rng.below(4) {
                    0 => var(""),
                    1 => op("cat", vec![var(""), s("!")]),
                    2 => op("!!", vec![var("")]),
                    _ => op("merge", vec![var(""), var("")]),
                };
                out.push(cli_case(&cli, "chain-2", &r2.to_string(), &stdout, 1 + rng.below(2)).0);
            }
        } else {
            out.push(cli_case(&cli, tag, &lt, &dt, form).0);
        }
    }
    out
}

// ---------------------------------------------------------------------------- C19
pub fn gen_c19_cases(rng: &mut Rng, count: usize, out_path: &str) {
    let mut f = std::io::BufWriter::new(std::fs::File::create(out_path).unwrap());
    let counter = std::cell::Cell::new(0usize);
    let push = |c: Value, f: &mut std::io::BufWriter<std::fs::File>| {
        let mut c = c;
        c["i"] = json!(counter.get());
        counter.set(counter.get() + 1);
        writeln!(f, "{}", c).unwrap();
    };
    // fixed cases
    for (entry, v, d) in [
        ("apply_serialized", "{\"+\":[1,2]}", None), ("apply_serialized", "{\"var\":\"a\"}}", Some("{\"a\":1}")), ("apply_serialized", "[1,2],[3]", None),
        ("apply_serialized", "{\"var\":\"a\"}", Some("{\"a\":1}]")), ("apply_serialized", "", None), ("apply_serialized", "{", Some("null")),
        ("apply_serialized", "{\"==\":[1]}", None), ("apply_serialized", "{\"var\":-9223372036854775808}", Some("[1,2]")), ("apply_serialized", "nul", None),
        ("apply_serialized", "1", Some("")), ("apply_serialized", "{\"var\":\"\"}", Some("1e999")), ("apply_serialized", "NaN", None), ("apply_serialized", "{\"var\":\"\"}", Some("Infinity")),
    ] {
        for deser in ["default", "identity"] {
            push(json!({"entry": entry, "value_text": v, "data_text": d, "deser": deser, "tag": "regress"}), &mut f);
        }
    }
    // texts that are not valid Unicode (unpaired surrogates in a Python str): written raw, since
    // a Rust String cannot hold them
    for (vt, dt) in [("\"\\ud800\"", "null"), ("{\"var\": \"a\"}", "{\"a\": \"x\\udc00\"}"), ("{\"cat\": [\"\\ud83d\", \"\\ude00\"]}", "null")] {
        for deser in ["default", "identity"] {
            let i = counter.get();
            counter.set(i + 1);
            writeln!(f, "{{\"i\": {}, \"entry\": \"apply_serialized\", \"value_text\": {}, \"data_text\": {}, \"deser\": \"{}\", \"tag\": \"not-unicode\"}}",
                     i, serde_json::to_string(vt).unwrap().replace("\\\\u", "\\u"), serde_json::to_string(dt).unwrap().replace("\\\\u", "\\u"), deser).unwrap();
        }
    }
    for (v, d) in [(json!({"var": ""}), json!(0)), (json!({"===": [{"var": ""}, 0]}), json!(0)), (json!({"var": ""}), json!(false)), (json!({"var": ""}), json!("")),
                   (json!({"var": ""}), json!([])), (json!({"var": ""}), json!({})), (json!({"var": ""}), fl(0.0)), (json!({"cat": [{"var": ""}]}), Value::Null)] {
        for mode in ["given", "omit", "none"] {
            for ser in ["default", "compact", "spaced"] {
                for deser in ["default", "identity"] {
                    push(json!({"entry": "apply", "value_json": v.to_string(), "data_json": d.to_string(), "data_mode": mode, "ser": ser, "deser": deser, "tag": "regress-falsy"}), &mut f);
                }
            }
        }
    }
    // Python values that are not the image of a JSON text: keys that are not strings, tuples
    for (vpy, dpy) in [
        ("{'var': 'x'}", "{1: 0, 'x': 5}"), ("{'var': 'null'}", "{None: 'n', 'k': 1}"), ("{'var': 'true'}", "{True: 1, 'a': 2}"), ("{'var': '1.5'}", "{1.5: 'f', 'b': 0}"),
        ("{'map': [{'var': 'rows'}, {'var': '7'}]}", "{'rows': [{7: 'seven', 'id': 1}]}"), ("{'merge': [{'var': ''}, (1, 2)]}", "(3, (4,))"), ("{'a': 1, 2: 'b'}", "None"),
        ("{'var': 'k'}", "{'k': '\\ud83d\\ude00'}"), ("{'cat': ['\\ud83d\\ude00', {'var': ''}]}", "'\\ud83d\\ude00!'"), ("{'var': '\\ud83d\\ude00'}", "{'\\ud83d\\ude00': 1}"),
        ("{'if': [{'var': 'reading.ok'}, {'var': 'reading.temp'}, 'n/a']}", "{'reading': {'temp': float('nan'), 'ok': True}, 'history': [1.5, float('inf')]}"),
        ("{'<': [{'var': 'x'}, float('inf')]}", "{'x': 1}"), ("{'var': 'a'}", "{'a': [float('-inf')]}"),
        ("{'var': ('x',)}", "{'x': (1, 2)}"), ("{'in': [2, (1, 2, 3)]}", "None"), ("{'cat': [{'var': '0'}, {'var': '-1'}]}", "{0: 'zero', -1: 'minus', 'z': 1}"),
    ] {
        for ser in ["default", "compact"] {
            for deser in ["default", "identity"] {
                push(json!({"entry": "apply", "value_py": vpy, "data_py": dpy, "value_json": "null", "data_json": "null", "data_mode": "given", "ser": ser, "deser": deser, "tag": "python-values"}), &mut f);
            }
        }
    }
    for t in ["\u{20ac}", "\u{e9}", "\u{65e5}", "\u{1f600}"] {
        for n in [60usize, 85, 100, 128, 150, 257] {
            let long: String = std::iter::repeat(t).take(n).collect();
            for deser in ["default", "identity"] {
                push(json!({"entry": "apply", "value_json": json!({"+": [long.clone()]}).to_string(), "data_json": "null", "data_mode": "omit", "ser": "default", "deser": deser, "tag": "long-error"}), &mut f);
                push(json!({"entry": "apply", "value_json": json!({"*": [{"var": "x"}, 2]}).to_string(), "data_json": json!({"x": format!("a{}", long)}).to_string(), "data_mode": "given", "ser": "default", "deser": deser, "tag": "long-error"}), &mut f);
                push(json!({"entry": "apply_serialized", "value_text": json!({"var": [[long.clone()]]}).to_string(), "data_text": Value::Null, "deser": deser, "tag": "long-error"}), &mut f);
            }
        }
    }
    while counter.get() < count {
        let dd = 1 + rng.below(3);
        let mut rule = gens::rand_rule(rng, dd);
        gens::strip_log(&mut rule);
        let data = rand_value(rng, 2);
        let mode = *rng.pick(&["given", "given", "omit", "none"]);
        let deser = *rng.pick(&["default", "identity"]);
        if rng.chance(1, 3) {
            let vt = if rng.chance(1, 6) { malformed(rng, &rule) } else { layouts(rng, &rule) };
            let dt = if rng.chance(1, 6) { malformed(rng, &data) } else { layouts(rng, &data) };
            let d = if mode == "given" { Some(dt) } else { None };
            push(json!({"entry": "apply_serialized", "value_text": vt, "data_text": d, "deser": deser, "tag": "serialized"}), &mut f);
        } else {
            let ser = *rng.pick(&["default", "compact", "spaced"]);
            push(json!({"entry": "apply", "value_json": rule.to_string(), "data_json": data.to_string(), "data_mode": mode, "ser": ser, "deser": deser, "tag": "apply"}), &mut f);
        }
    }
}

pub fn emit_c19(results_path: &str) -> Vec<Emit> {
    let mut out = Vec::new();
    for line in std::fs::read_to_string(results_path).unwrap().lines() {
        let r: Value = serde_json::from_str(line).unwrap();
        let vt = r["value_text"].as_str().unwrap_or("");
        let data_term = match r["data_text"].as_str() {
            Some(t) => format!("(Some {})", parsed_term(t)),
            None => "None".to_string(),
        };
        let obs = if r["decode_ok"] == json!(false) {
            "ObsBad".to_string()
        } else if let Some(t) = r["outcome"]["ret"].as_str() {
            format!("(ObsPy (PyReturn {}))", str_term(t))
        } else if r["outcome"]["exc"] == json!("ValueError") {
            "(ObsPy PyValueError)".to_string()
        } else {
            "(ObsPy PyOtherException)".to_string()
        };
        let crashed = obs == "ObsBad" || obs.contains("PyOtherException");
        out.push(Emit {
            work_term: format!("(WPy {} {})", parsed_term(vt), data_term),
            obs_term: obs,
            tag: r["tag"].as_str().unwrap_or("").to_string(),
            record: json!({"tag": r["tag"], "work": {"k": "py", "case": r["case"], "value_text": vt, "data_text": r["data_text"]}, "obs": r["outcome"], "decode_ok": r["decode_ok"]}),
            crashed,
        });
    }
    out
}

/// another property's apply(rule, data) cases, run through the command line
pub fn cli_from_plain(rng: &mut Rng, cases: &[(Value, Value, String)]) -> Vec<Emit> {
    let cli = std::env::var("JLH_CLI").expect("JLH_CLI");
    let mut out = Vec::new();
    for (rule, data, tag) in cases {
        let (lt, dt) = (rule.to_string(), data.to_string());
        if is_flag_like(&lt) || is_flag_like(&dt) || lt.contains('\0') || dt.contains('\0') {
            continue;
        }
        if lt.len() > 100_000 || dt.len() > 100_000 {
            continue; // longer than one command-line argument may be (E2BIG): not deliverable this way
        }
        out.push(cli_case(&cli, &format!("cli:{}", tag), &lt, &dt, rng.below(3)).0);
    }
    out
}

/// another property's apply(rule, data) cases, as calls of the Python module
pub fn py_cases_from_plain(cases: &[(Value, Value, String)], out_path: &str) {
    let mut f = std::io::BufWriter::new(std::fs::File::create(out_path).unwrap());
    let mut n = 0usize;
    for (i, (rule, data, tag)) in cases.iter().enumerate() {
        let c = json!({"i": i, "entry": "apply", "value_json": rule.to_string(), "data_json": data.to_string(),
                       "data_mode": "given", "ser": "default", "deser": if i % 2 == 0 { "default" } else { "identity" },
                       "tag": format!("py:{}", tag)});
        writeln!(f, "{}", c).unwrap();
        n = i + 1;
    }
    // a call leaves its arguments as they were - also when they hold values JSON cannot spell
    for (k, (vpy, dpy)) in [
        ("{'if': [{'var': 'reading.ok'}, {'var': 'reading.temp'}, 'n/a']}", "{'reading': {'temp': float('nan'), 'ok': True}, 'history': [1.5, float('inf')]}"),
        ("{'<': [{'var': 'x'}, float('inf')]}", "{'x': 1}"), ("{'var': 'a'}", "{'a': [float('-inf'), (1, 2)], 1: 'one'}"), ("{'cat': [{'var': ''}]}", "float('nan')"),
    ].iter().enumerate() {
        let c = json!({"i": n + k, "entry": "apply", "value_py": vpy, "data_py": dpy, "value_json": "null", "data_json": "null", "data_mode": "given", "ser": "default",
                       "deser": if k % 2 == 0 { "default" } else { "identity" }, "tag": "py:unmodified-arguments"});
        writeln!(f, "{}", c).unwrap();
    }
}
