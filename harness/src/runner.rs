//! Running cases against the implementation in a child process (so that an abort or a
//! hang is attributed to a case), capturing the lines written by `log`.
use serde_json::{json, Value};
use std::io::{BufRead, BufReader, Write};
use std::process::{Child, Command, Stdio};
use std::sync::mpsc;
use std::time::Duration;

use jsonlogic_rs::js_op;

#[derive(Clone, Debug)]
pub enum Work {
    Apply { rule: Value, data: Value },
    Helper { name: String, args: Vec<Value> },
    /// a sequence of calls executed in one process, in order
    History { calls: Vec<(Value, Value)> },
    /// the same calls from `threads` threads at once on shared values; returns per-call results of each thread
    Threads { calls: Vec<(Value, Value)>, threads: usize },
}

#[derive(Clone, Debug, PartialEq)]
pub enum Obs {
    Ok { v: Value, logs: Vec<String> },
    Err { kind: String, logs: Vec<String> },
    Panic { msg: String },
    Abort,
    Timeout,
    /// helper results: a JSON description {"b":bool} | {"f":"bits"} | {"f":null} | {"v":value} | {"s":string} | {"e":true}
    Helper { r: Value },
    /// history/threads: list of per-call outcomes as JSON
    Multi { r: Value, logs: Vec<String> },
}

/// Exact transfer encoding of a Value (serde_json's default float parser is not correctly
/// rounded, so floats cannot travel as decimal text): every node is a tagged array.
pub fn enc(v: &Value) -> Value {
    let mut out = Vec::new();
    enc_into(v, &mut out);
    Value::Array(out)
}

/// a flat pre-order token list, so that the transfer adds no nesting of its own
fn enc_into(v: &Value, out: &mut Vec<Value>) {
    match v {
        Value::Null => out.push(json!("n")),
        Value::Bool(b) => out.push(json!(if *b { "t" } else { "f" })),
        Value::Number(n) => {
            if let Some(u) = n.as_u64() {
                out.push(json!("u"));
                out.push(json!(u.to_string()));
            } else if let Some(i) = n.as_i64() {
                out.push(json!("i"));
                out.push(json!(i.to_string()));
            } else {
                out.push(json!("F"));
                out.push(json!(n.as_f64().unwrap().to_bits().to_string()));
            }
        }
        Value::String(s) => {
            out.push(json!("s"));
            out.push(json!(s));
        }
        Value::Array(a) => {
            out.push(json!("a"));
            out.push(json!(a.len()));
            for x in a {
                enc_into(x, out);
            }
        }
        Value::Object(m) => {
            out.push(json!("o"));
            out.push(json!(m.len()));
            for (k, x) in m {
                out.push(json!(k));
                enc_into(x, out);
            }
        }
    }
}

pub fn dec(v: &Value) -> Value {
    let toks = v.as_array().expect("token list");
    let mut pos = 0;
    let r = dec_from(toks, &mut pos);
    assert_eq!(pos, toks.len());
    r
}

fn dec_from(t: &[Value], pos: &mut usize) -> Value {
    let tag = t[*pos].as_str().unwrap().to_string();
    *pos += 1;
    let mut take_str = |pos: &mut usize| -> String {
        let s = t[*pos].as_str().unwrap().to_string();
        *pos += 1;
        s
    };
    match tag.as_str() {
        "n" => Value::Null,
        "t" => Value::Bool(true),
        "f" => Value::Bool(false),
        "u" => json!(take_str(pos).parse::<u64>().unwrap()),
        "i" => json!(take_str(pos).parse::<i64>().unwrap()),
        "F" => Value::Number(serde_json::Number::from_f64(f64::from_bits(take_str(pos).parse::<u64>().unwrap())).unwrap()),
        "s" => Value::String(take_str(pos)),
        "a" => {
            let n = t[*pos].as_u64().unwrap() as usize;
            *pos += 1;
            Value::Array((0..n).map(|_| dec_from(t, pos)).collect())
        }
        "o" => {
            let n = t[*pos].as_u64().unwrap() as usize;
            *pos += 1;
            let mut m = serde_json::Map::new();
            for _ in 0..n {
                let k = t[*pos].as_str().unwrap().to_string();
                *pos += 1;
                m.insert(k, dec_from(t, pos));
            }
            Value::Object(m)
        }
        other => panic!("bad tag {}", other),
    }
}

fn err_kind(dbg: &str) -> String {
    dbg.chars()
        .take_while(|c| c.is_alphanumeric() || *c == '_')
        .collect()
}

fn res_json(r: Result<Value, String>) -> Value {
    match r {
        Ok(v) => json!({"s":"ok","v":enc(&v)}),
        Err(e) => json!({"s":"err","kind":err_kind(&e)}),
    }
}

fn apply_dbg(rule: &Value, data: &Value) -> Result<Value, String> {
    // Large flat inputs (long strings, wide arrays; little nesting) are evaluated on a worker
    // thread with a small stack (256 KiB, as thread pools often configure).  The unchanged code
    // uses stack in proportion to nesting only, so this costs it nothing; recursion that grows
    // with the SIZE of a string or array, rather than with nesting, overflows there at sizes
    // the Coq side can still evaluate quickly.
    if crate::gens::json_depth(rule) <= 8 && crate::gens::json_depth(data) <= 8 && rule.to_string().len() + data.to_string().len() > 4_000 {
        let r = std::thread::scope(|sc| {
            std::thread::Builder::new()
                .stack_size(256 << 10)
                .spawn_scoped(sc, || std::panic::catch_unwind(|| jsonlogic_rs::apply(rule, data).map_err(|e| format!("{:?}", e))))
                .expect("spawn worker")
                .join()
        });
        return match r {
            Ok(Ok(v)) => v,
            Ok(Err(e)) | Err(e) => std::panic::resume_unwind(e),
        };
    }
    jsonlogic_rs::apply(rule, data).map_err(|e| format!("{:?}", e))
}

fn f_json(f: f64) -> Value {
    json!({ "f": format!("{}", f.to_bits()) })
}
fn of_json(o: Option<f64>) -> Value {
    match o {
        Some(f) => f_json(f),
        None => json!({ "f": null }),
    }
}
fn rf_json<E>(r: Result<f64, E>) -> Value {
    match r {
        Ok(f) => f_json(f),
        Err(_) => json!({"e": true}),
    }
}

fn helper(name: &str, a: &[Value]) -> Value {
    let refs: Vec<&Value> = a.iter().collect();
    match name {
        "abstract_eq" => json!({"b": js_op::abstract_eq(&a[0], &a[1])}),
        "abstract_ne" => json!({"b": js_op::abstract_ne(&a[0], &a[1])}),
        "strict_eq" => json!({"b": js_op::strict_eq(&a[0], &a[1])}),
        "strict_ne" => json!({"b": js_op::strict_ne(&a[0], &a[1])}),
        "strict_eq_same" => json!({"b": js_op::strict_eq(&a[0], &a[0])}),
        // one reference passed twice: the helpers are functions of the values, never of identity
        "abstract_eq_same" => json!({"b": js_op::abstract_eq(&a[0], &a[0])}),
        "abstract_ne_same" => json!({"b": js_op::abstract_ne(&a[0], &a[0])}),
        "abstract_lt_same" => json!({"b": js_op::abstract_lt(&a[0], &a[0])}),
        "abstract_gt_same" => json!({"b": js_op::abstract_gt(&a[0], &a[0])}),
        "abstract_lte_same" => json!({"b": js_op::abstract_lte(&a[0], &a[0])}),
        "abstract_gte_same" => json!({"b": js_op::abstract_gte(&a[0], &a[0])}),
        "abstract_plus_same" => json!({"v": enc(&js_op::abstract_plus(&a[0], &a[0]))}),
        "abstract_lt" => json!({"b": js_op::abstract_lt(&a[0], &a[1])}),
        "abstract_gt" => json!({"b": js_op::abstract_gt(&a[0], &a[1])}),
        "abstract_lte" => json!({"b": js_op::abstract_lte(&a[0], &a[1])}),
        "abstract_gte" => json!({"b": js_op::abstract_gte(&a[0], &a[1])}),
        "to_string" => json!({"s": js_op::to_string(&a[0])}),
        "to_number" => of_json(js_op::to_number(&a[0])),
        "parse_float" => of_json(js_op::parse_float(&a[0])),
        "str_to_number" => match &a[0] {
            Value::String(s) => of_json(js_op::str_to_number(s)),
            _ => json!({"e": true}),
        },
        "abstract_plus" => json!({"v": enc(&js_op::abstract_plus(&a[0], &a[1]))}),
        "abstract_minus" => rf_json(js_op::abstract_minus(&a[0], &a[1])),
        "abstract_div" => rf_json(js_op::abstract_div(&a[0], &a[1])),
        "abstract_mod" => rf_json(js_op::abstract_mod(&a[0], &a[1])),
        "to_negative" => rf_json(js_op::to_negative(&a[0])),
        "abstract_max" => rf_json(js_op::abstract_max(&refs)),
        "abstract_min" => rf_json(js_op::abstract_min(&refs)),
        "parse_float_add" => rf_json(js_op::parse_float_add(&refs)),
        "parse_float_mul" => rf_json(js_op::parse_float_mul(&refs)),
        _ => json!({"unknown": name}),
    }
}

fn work_of_json(v: &Value) -> Work {
    let calls = |v: &Value| -> Vec<(Value, Value)> {
        v.as_array()
            .unwrap()
            .iter()
            .map(|c| (dec(&c[0]), dec(&c[1])))
            .collect()
    };
    match v["k"].as_str().unwrap() {
        "apply" => Work::Apply { rule: dec(&v["rule"]), data: dec(&v["data"]) },
        "helper" => Work::Helper {
            name: v["fn"].as_str().unwrap().to_string(),
            args: v["args"].as_array().unwrap().iter().map(dec).collect(),
        },
        "history" => Work::History { calls: calls(&v["calls"]) },
        "threads" => Work::Threads { calls: calls(&v["calls"]), threads: v["threads"].as_u64().unwrap() as usize },
        k => panic!("unknown work kind {}", k),
    }
}

pub fn work_to_wire(w: &Work) -> Value {
    let calls = |c: &Vec<(Value, Value)>| -> Value {
        Value::Array(c.iter().map(|(r, d)| json!([enc(r), enc(d)])).collect())
    };
    match w {
        Work::Apply { rule, data } => json!({"k":"apply","rule":enc(rule),"data":enc(data)}),
        Work::Helper { name, args } => json!({"k":"helper","fn":name,"args":args.iter().map(enc).collect::<Vec<_>>()}),
        Work::History { calls: c } => json!({"k":"history","calls":calls(c)}),
        Work::Threads { calls: c, threads } => json!({"k":"threads","calls":calls(c),"threads":threads}),
    }
}

/// human-readable form for records (floats as JSON text: informative, not exact)
pub fn work_to_json(w: &Work) -> Value {
    let calls = |c: &Vec<(Value, Value)>| -> Value {
        Value::Array(c.iter().map(|(r, d)| json!([r, d])).collect())
    };
    match w {
        Work::Apply { rule, data } => json!({"k":"apply","rule":rule,"data":data,"rule_text":rule.to_string(),"data_text":data.to_string()}),
        Work::Helper { name, args } => json!({"k":"helper","fn":name,"args":args}),
        Work::History { calls: c } => json!({"k":"history","calls":calls(c)}),
        Work::Threads { calls: c, threads } => json!({"k":"threads","calls":calls(c),"threads":threads}),
    }
}

/// The child: one work item per input line; `@@B i`, the item's own output, `@@E i <json>`.
pub fn child_main() {
    std::panic::set_hook(Box::new(|_| {}));
    let stdin = std::io::stdin();
    let mut i = 0usize;
    for line in stdin.lock().lines() {
        let line = line.unwrap();
        if line.is_empty() {
            continue;
        }
        let w = work_of_json(&serde_json::from_str(&line).unwrap());
        println!("@@B {}", i);
        let res: Value = match std::panic::catch_unwind(|| match &w {
            Work::Apply { rule, data } => {
                let before = (rule.clone(), data.clone());
                let r = res_json(apply_dbg(rule, data));
                let unchanged = before.0 == *rule && before.1 == *data;
                let mut r = r;
                r["unchanged"] = json!(unchanged);
                r
            }
            Work::Helper { name, args } => json!({"s":"helper","r":helper(name, args)}),
            Work::History { calls } => {
                let rs: Vec<Value> = calls.iter().map(|(r, d)| res_json(apply_dbg(r, d))).collect();
                json!({"s":"multi","r":rs})
            }
            Work::Threads { calls, threads } => {
                let shared = std::sync::Arc::new(calls.clone());
                let barrier = std::sync::Arc::new(std::sync::Barrier::new(*threads));
                let hs: Vec<_> = (0..*threads)
                    .map(|t| {
                        let shared = shared.clone();
                        let barrier = barrier.clone();
                        std::thread::spawn(move || {
                            barrier.wait();
                            let n = shared.len();
                            // each thread walks the calls from a different offset
                            let mut out = vec![Value::Null; n];
                            for j in 0..n {
                                let k = (j + t * 7) % n;
                                let (r, d) = &shared[k];
                                out[k] = res_json(apply_dbg(r, d));
                            }
                            out
                        })
                    })
                    .collect();
                let rs: Vec<Value> = hs
                    .into_iter()
                    .map(|h| match h.join() {
                        Ok(v) => Value::Array(v),
                        Err(_) => json!("thread-panicked"),
                    })
                    .collect();
                let same = *shared == *calls;
                json!({"s":"multi","r":rs,"unchanged":same})
            }
        }) {
            Ok(v) => v,
            Err(e) => {
                let msg = e
                    .downcast_ref::<String>()
                    .cloned()
                    .or_else(|| e.downcast_ref::<&str>().map(|s| s.to_string()))
                    .unwrap_or_default();
                json!({"s":"panic","msg":msg})
            }
        };
        println!("@@E {} {}", i, res);
        std::io::stdout().flush().unwrap();
        i += 1;
    }
}

struct Running {
    child: Child,
    rx: mpsc::Receiver<Option<String>>,
}

fn spawn_child(exe: &str, items: &[Value]) -> Running {
    let mut child = Command::new(exe)
        .arg("child")
        .stdin(Stdio::piped())
        .stdout(Stdio::piped())
        .stderr(Stdio::null())
        .env_remove("RUST_BACKTRACE")
        .spawn()
        .expect("spawn child");
    let mut stdin = child.stdin.take().unwrap();
    let lines: Vec<String> = items.iter().map(|v| v.to_string()).collect();
    std::thread::spawn(move || {
        for l in lines {
            if writeln!(stdin, "{}", l).is_err() {
                break;
            }
        }
    });
    let stdout = child.stdout.take().unwrap();
    let (tx, rx) = mpsc::channel();
    std::thread::spawn(move || {
        let mut rd = BufReader::new(stdout);
        loop {
            let mut buf = Vec::new();
            match rd.read_until(b'\n', &mut buf) {
                Ok(0) | Err(_) => {
                    let _ = tx.send(None);
                    break;
                }
                Ok(_) => {
                    let s = String::from_utf8_lossy(&buf).trim_end_matches('\n').to_string();
                    if tx.send(Some(s)).is_err() {
                        break;
                    }
                }
            }
        }
    });
    Running { child, rx }
}

fn obs_of(res: &Value, logs: Vec<String>) -> Obs {
    match res["s"].as_str().unwrap_or("") {
        "ok" => {
            if res["unchanged"] == json!(false) {
                Obs::Panic { msg: "inputs were modified by apply".into() }
            } else {
                Obs::Ok { v: dec(&res["v"]), logs }
            }
        }
        "err" => Obs::Err { kind: res["kind"].as_str().unwrap_or("").to_string(), logs },
        "panic" => Obs::Panic { msg: res["msg"].as_str().unwrap_or("").to_string() },
        "helper" => Obs::Helper { r: res["r"].clone() },
        "multi" => {
            if res["unchanged"] == json!(false) {
                Obs::Panic { msg: "shared inputs were modified".into() }
            } else {
                Obs::Multi { r: res["r"].clone(), logs }
            }
        }
        _ => Obs::Panic { msg: format!("unparsable child result {}", res) },
    }
}

/// Run all work items; an item that kills the child is recorded as Abort (or Timeout) and
/// the rest continue in a fresh child.
pub fn run_all(exe: &str, work: &[Work], timeout_s: u64) -> Vec<Obs> {
    let items: Vec<Value> = work.iter().map(work_to_wire).collect();
    let mut out: Vec<Obs> = Vec::with_capacity(items.len());
    while out.len() < items.len() {
        let base = out.len();
        let mut run = spawn_child(exe, &items[base..]);
        let mut logs: Vec<String> = Vec::new();
        let mut in_case = false;
        loop {
            match run.rx.recv_timeout(Duration::from_secs(timeout_s)) {
                Ok(Some(line)) => {
                    if let Some(rest) = line.strip_prefix("@@B ") {
                        let _ = rest;
                        in_case = true;
                        logs.clear();
                    } else if let Some(rest) = line.strip_prefix("@@E ") {
                        let sp = rest.find(' ').unwrap();
                        let res: Value = serde_json::from_str(&rest[sp + 1..]).unwrap_or(json!({}));
                        out.push(obs_of(&res, std::mem::take(&mut logs)));
                        in_case = false;
                        if out.len() == items.len() {
                            break;
                        }
                    } else if in_case {
                        logs.push(line);
                    }
                }
                Ok(None) => {
                    // child ended: if items remain, the one in flight (or next) aborted
                    if out.len() < items.len() {
                        out.push(Obs::Abort);
                    }
                    break;
                }
                Err(_) => {
                    let _ = run.child.kill();
                    out.push(Obs::Timeout);
                    break;
                }
            }
        }
        let _ = run.child.kill();
        let _ = run.child.wait();
    }
    out
}
