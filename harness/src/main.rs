//! jlh: correspondence harness.  Generates cases from one seed, runs them against the
//! implementation built from /repo's working tree, and writes them - inputs and observed
//! outputs - as Gallina terms for the Coq side to check.
mod boundary;
mod coqfmt;
mod corpus;
mod gens;
mod prng;
mod runner;

use coqfmt::*;
use gens::Case;
use prng::Rng;
use runner::{Obs, Work};
use serde_json::{json, Value};
use std::collections::BTreeMap;
use std::io::Write;

fn err_term(kind: &str) -> String {
    match kind {
        "WrongArgumentCount" | "InvalidOperation" | "InvalidArgument" | "InvalidVariableKey" | "UnexpectedError" => {
            format!("(Some {})", kind)
        }
        _ => "None".to_string(),
    }
}

fn logs_term(logs: &[String]) -> String {
    // each log line is the JSON text of the logged value
    let items: Vec<String> = logs.iter().map(|l| str_term(l)).collect();
    list_term(&items)
}

fn hres_term(r: &Value) -> String {
    if let Some(b) = r.get("b") {
        format!("(HBool {})", b.as_bool().unwrap())
    } else if let Some(f) = r.get("f") {
        match f.as_str() {
            Some(bits) => format!("(HF (Some {}))", f64_term(f64::from_bits(bits.parse::<u64>().unwrap()))),
            None => "(HF None)".to_string(),
        }
    } else if r.get("e").is_some() {
        "HErr".to_string()
    } else if let Some(v) = r.get("v") {
        format!("(HVal {})", value_term(&runner::dec(v)))
    } else if let Some(s) = r.get("s") {
        format!("(HStr {})", str_term(s.as_str().unwrap()))
    } else {
        "HErr".to_string()
    }
}

fn obs1_term(r: &Value) -> String {
    match r["s"].as_str() {
        Some("ok") => format!("(O1Ok {})", value_term(&runner::dec(&r["v"]))),
        Some("err") => "O1Err".to_string(),
        _ => "O1Crash".to_string(),
    }
}

fn obs1_of_obs(o: &Obs) -> String {
    match o {
        Obs::Ok { v, .. } => format!("(O1Ok {})", value_term(v)),
        Obs::Err { .. } => "O1Err".to_string(),
        _ => "O1Crash".to_string(),
    }
}

fn obs_term(o: &Obs) -> String {
    match o {
        Obs::Ok { v, logs } => format!("(ObsOk {} {})", value_term(v), logs_term(logs)),
        Obs::Err { kind, logs } => format!("(ObsErr {} {})", err_term(kind), logs_term(logs)),
        Obs::Panic { .. } => "ObsPanic".to_string(),
        Obs::Abort => "ObsAbort".to_string(),
        Obs::Timeout => "ObsTimeout".to_string(),
        Obs::Helper { r } => format!("(ObsHelper {})", hres_term(r)),
        Obs::Multi { r, .. } => {
            let arr = r.as_array().cloned().unwrap_or_default();
            if arr.first().map(|x| x.is_array() || x.is_string()).unwrap_or(false) {
                let ts: Vec<String> = arr
                    .iter()
                    .map(|t| match t.as_array() {
                        Some(xs) => list_term(&xs.iter().map(obs1_term).collect::<Vec<_>>()),
                        None => "[O1Crash]".to_string(),
                    })
                    .collect();
                format!("(ObsMulti {})", list_term(&ts))
            } else {
                format!("(ObsMulti [{}])", list_term(&arr.iter().map(obs1_term).collect::<Vec<_>>()))
            }
        }
    }
}

fn obs_json(o: &Obs) -> Value {
    match o {
        Obs::Ok { v, logs } => json!({"ok": v, "logs": logs}),
        Obs::Err { kind, logs } => json!({"err": kind, "logs": logs}),
        Obs::Panic { msg } => json!({"panic": msg}),
        Obs::Abort => json!({"abort": true}),
        Obs::Timeout => json!({"timeout": true}),
        Obs::Helper { r } => json!({"helper": r}),
        Obs::Multi { r, .. } => json!({"multi_len": r.as_array().map(|a| a.len())}),
    }
}

fn helper_ctor(name: &str) -> String {
    format!("H_{}", name)
}

/// One emitted case: the Gallina `work` term, the observation term, and a JSON record.
struct Emitted {
    work_term: String,
    obs_term: String,
    tag: String,
    record: Value,
    crashed: bool,
}

fn work_term(w: &Work) -> String {
    match w {
        Work::Apply { rule, data } => format!("(WApply {} {})", value_term(rule), value_term(data)),
        // x_same [a] is x called with one reference twice: in Gallina that is x [a; a]
        // (strict_eq alone has a model of the identity shortcut, and its own constructor)
        Work::Helper { name, args } if name.ends_with("_same") && name != "strict_eq_same" && args.len() == 1 => format!(
            "(WHelper {} {})",
            helper_ctor(name.trim_end_matches("_same")),
            list_term(&[value_term(&args[0]), value_term(&args[0])])
        ),
        Work::Helper { name, args } => format!(
            "(WHelper {} {})",
            helper_ctor(name),
            list_term(&args.iter().map(value_term).collect::<Vec<_>>())
        ),
        _ => unreachable!(),
    }
}

fn is_crash(o: &Obs) -> bool {
    matches!(o, Obs::Panic { .. } | Obs::Abort | Obs::Timeout)
}

fn emit_simple(c: &Case, o: &Obs) -> Emitted {
    Emitted {
        work_term: work_term(&c.work),
        obs_term: obs_term(o),
        tag: c.tag.clone(),
        record: json!({"tag": c.tag, "work": runner::work_to_json(&c.work), "obs": obs_json(o)}),
        crashed: is_crash(o),
    }
}

fn write_shards(prop: &str, out_dir: &str, emitted: &[Emitted], shards: usize) -> std::io::Result<usize> {
    let n = emitted.len();
    let per = ((n + shards - 1) / shards).max(1).min(1500);
    let nshards = (n + per - 1) / per;
    for k in 0..nshards {
        let lo = k * per;
        let hi = ((k + 1) * per).min(n);
        let mut f = std::io::BufWriter::new(std::fs::File::create(format!("{}/cases_{}_{}.v", out_dir, prop, k))?);
        writeln!(f, "From Coq Require Import List ZArith NArith Floats.SpecFloat.\nFrom JL Require Import Base.Json Base.Monad Model.Boundary Spec.Specs Corr.\nImport ListNotations.\nLocal Open Scope N_scope.")?;
        writeln!(f, "Definition cases : list case := [")?;
        for (j, e) in emitted[lo..hi].iter().enumerate() {
            let sep = if lo + j + 1 == hi { "" } else { ";" };
            writeln!(f, " mk_case {} {} {}{}", lo + j, e.work_term, e.obs_term, sep)?;
        }
        writeln!(f, "].")?;
        writeln!(f, "Eval vm_compute in (run_checks P_{} cases).", prop)?;
    }
    Ok(nshards)
}

fn get_arg(args: &[String], name: &str, default: &str) -> String {
    args.iter()
        .position(|a| a == name)
        .and_then(|i| args.get(i + 1).cloned())
        .unwrap_or_else(|| default.to_string())
}

fn pool_term(pool: &[(Value, Value)]) -> String {
    list_term(&pool.iter().map(|(r, d)| format!("({},{})", value_term(r), value_term(d))).collect::<Vec<_>>())
}

fn main() {
    let args: Vec<String> = std::env::args().collect();
    if args.len() < 2 {
        eprintln!("usage: jlh child | gen <prop> --seed S --count N --tier T --out DIR | one <rule> <data>");
        std::process::exit(2);
    }
    match args[1].as_str() {
        "child" => runner::child_main(),
        "one" => {
            let rule: Value = serde_json::from_str(&args[2]).expect("rule json");
            let data: Value = serde_json::from_str(&args[3]).expect("data json");
            let exe = std::env::current_exe().unwrap().to_string_lossy().to_string();
            let obs = runner::run_all(&exe, &[Work::Apply { rule, data }], 20);
            println!("{}", obs_json(&obs[0]));
        }
        "gen" => gen_main(&args),
        _ => {
            eprintln!("unknown subcommand");
            std::process::exit(2);
        }
    }
}

fn all_cases(prop: &str, rng: &mut Rng, count: usize, thorough: bool) -> Vec<Case> {
    match prop {
        "C01" => gens::gen_c01(rng, count, thorough),
        "C02" => gens::gen_c02(rng, count, thorough),
        "C03" => gens::gen_c03(rng, count, thorough),
        "C04" => gens::gen_c04(rng, count, thorough),
        "C05" => gens::gen_c05(rng, count, thorough),
        "C06" => gens::gen_c06(rng, count, thorough),
        "C07" => gens::gen_c07(rng, count, thorough),
        "C08" => gens::gen_c08(rng, count, thorough),
        "C09" => gens::gen_c09(rng, count, thorough),
        "C10" => gens::gen_c10(rng, count, thorough),
        "C11" => gens::gen_c11(rng, count, thorough),
        "C12" => gens::gen_c12(rng, count, thorough),
        "C13" => gens::gen_c13(rng, count, thorough),
        "C14" => gens::gen_c14(rng, count, thorough),
        "C15" => gens::gen_c15(rng, count, thorough),
        "C16" => gens::gen_c16(rng, count, thorough),
        "C17" => gens::gen_c17_plain(rng, count),
        _ => Vec::new(),
    }
}

/// the plain apply(rule, data) cases of a property's generator (for cross-entry-point runs)
fn plain_cases(prop: &str, rng: &mut Rng, count: usize, thorough: bool) -> Vec<(Value, Value, String)> {
    all_cases(prop, rng, count, thorough)
        .into_iter()
        .filter(|c| !c.tag.starts_with("known:"))   // listed known findings are exercised at the library only
        .filter_map(|c| match c.work {
            Work::Apply { rule, data } => Some((rule, data, c.tag)),
            _ => None,
        })
        .collect()
}

fn gen_main(args: &[String]) {
    let prop = args[2].clone();
    let from = get_arg(args, "--from", "");
    let as_prop = get_arg(args, "--as", &prop);
    let seed: u64 = get_arg(args, "--seed", "1").parse().unwrap_or(1);
    let count: usize = get_arg(args, "--count", "2000").parse().unwrap();
    let thorough = get_arg(args, "--tier", "quick") == "thorough";
    let out_dir = get_arg(args, "--out", ".");
    let shards: usize = get_arg(args, "--shards", "16").parse().unwrap();
    let profile = get_arg(args, "--profile", "dev");
    let exe = std::env::current_exe().unwrap().to_string_lossy().to_string();
    std::fs::create_dir_all(&out_dir).unwrap();
    let mut rng = Rng::new(seed ^ prop.bytes().fold(0u64, |a, b| a.wrapping_mul(131).wrapping_add(b as u64)));

    let mut emitted: Vec<Emitted> = Vec::new();
    // seconds allowed to one evaluation before it counts as a hang (shrinking uses less)
    let tmo: u64 = std::env::var("JLH_TIMEOUT").ok().and_then(|t| t.parse().ok()).unwrap_or(20);
    let simple = |cases: Vec<Case>, emitted: &mut Vec<Emitted>| {
        let work: Vec<Work> = cases.iter().map(|c| c.work.clone()).collect();
        let obs = runner::run_all(&exe, &work, tmo);
        for (c, o) in cases.iter().zip(obs.iter()) {
            emitted.push(emit_simple(c, o));
        }
    };
    match prop.as_str() {
        "C01" => simple(gens::gen_c01(&mut rng, count, thorough), &mut emitted),
        "C02" => simple(gens::gen_c02(&mut rng, count, thorough), &mut emitted),
        "C03" => {
            let cases = gens::gen_c03(&mut rng, count, thorough);
            let start = gens::c03_pair_start(&cases);
            let work: Vec<Work> = cases.iter().map(|c| c.work.clone()).collect();
            let obs = runner::run_all(&exe, &work, 20);
            for i in 0..start {
                emitted.push(emit_simple(&cases[i], &obs[i]));
            }
            let mut i = start;
            while i + 1 < cases.len() {
                emitted.push(emit_pair(&cases[i], &obs[i], &cases[i + 1], &obs[i + 1]));
                i += 2;
            }
        }
        "C04" => {
            simple(gens::gen_c04(&mut rng, count * 2 / 3, thorough), &mut emitted);
            // substitution law: evaluate the operands first, then compare the two forms
            let subst = gens::gen_c04_subst(&mut rng, count / 3);
            let mut operand_work = Vec::new();
            for (_, a, d) in subst.iter() {
                for ai in a {
                    operand_work.push(Work::Apply { rule: corpus::norm(ai), data: corpus::norm(d) });
                }
            }
            let operand_obs = runner::run_all(&exe, &operand_work, 20);
            let mut k = 0;
            let mut pair_cases: Vec<(Case, Case)> = Vec::new();
            for (name, a, d) in subst.iter() {
                let mut vals = Vec::new();
                let mut ok = true;
                for _ in a {
                    match &operand_obs[k] {
                        Obs::Ok { v, .. } => vals.push(v.clone()),
                        _ => ok = false,
                    }
                    k += 1;
                }
                if !ok {
                    continue;
                }
                let refs: Vec<Value> = (0..a.len()).map(|i| corpus::op("var", vec![corpus::int(i as i64)])).collect();
                let c1 = Case { work: Work::Apply { rule: corpus::norm(&corpus::op(name, a.clone())), data: corpus::norm(d) }, tag: format!("subst-direct:{}", name) };
                let c2 = Case { work: Work::Apply { rule: corpus::norm(&corpus::op(name, refs)), data: Value::Array(vals) }, tag: format!("subst-byref:{}", name) };
                pair_cases.push((c1, c2));
            }
            let work: Vec<Work> = pair_cases.iter().flat_map(|(a, b)| vec![a.work.clone(), b.work.clone()]).collect();
            let obs = runner::run_all(&exe, &work, 20);
            for (i, (a, b)) in pair_cases.iter().enumerate() {
                emitted.push(emit_pair(a, &obs[2 * i], b, &obs[2 * i + 1]));
            }
        }
        "C05" => simple(gens::gen_c05(&mut rng, count, thorough), &mut emitted),
        "C06" => simple(gens::gen_c06(&mut rng, count, thorough), &mut emitted),
        "C07" => simple(gens::gen_c07(&mut rng, count, thorough), &mut emitted),
        "C08" => simple(gens::gen_c08(&mut rng, count, thorough), &mut emitted),
        "C09" => simple(gens::gen_c09(&mut rng, count, thorough), &mut emitted),
        "C10" => simple(gens::gen_c10(&mut rng, count, thorough), &mut emitted),
        "C11" => simple(gens::gen_c11(&mut rng, count, thorough), &mut emitted),
        "C12" => simple(gens::gen_c12(&mut rng, count, thorough), &mut emitted),
        "C13" => simple(gens::gen_c13(&mut rng, count, thorough), &mut emitted),
        "C14" => simple(gens::gen_c14(&mut rng, count, thorough), &mut emitted),
        "C15" => simple(gens::gen_c15(&mut rng, count, thorough), &mut emitted),
        "C16" => simple(gens::gen_c16(&mut rng, count, thorough), &mut emitted),
        "C17" => {
            // log: one line per evaluated log, operand returned unchanged
            let vals = corpus::values();
            let mut log_cases = Vec::new();
            for _ in 0..(count / 20).max(20) {
                let v = rng.pick(&vals).clone();
                let d = json!({"x": v});
                log_cases.push(Case { work: Work::Apply { rule: corpus::norm(&corpus::op("log", vec![corpus::var("x")])), data: corpus::norm(&d) }, tag: "log".into() });
                log_cases.push(Case { work: Work::Apply { rule: corpus::norm(&json!({"cat": [{"log": "a"}, {"log": {"var": "x"}}, {"if": [false, {"log": "never"}, {"log": "b"}]}]})), data: corpus::norm(&d) }, tag: "log-seq".into() });
                // a line is written when its log is evaluated, whatever happens to the rule afterwards
                log_cases.push(Case { work: Work::Apply { rule: corpus::norm(&json!({"+": [{"log": {"var": "x"}}, "not a number"]})), data: corpus::norm(&d) }, tag: "log-then-error".into() });
                log_cases.push(Case { work: Work::Apply { rule: corpus::norm(&json!({"if": [{"log": 1}, {"in": [{"log": "second"}, 2]}, 3]})), data: corpus::norm(&d) }, tag: "log-then-error".into() });
            }
            for _ in 0..(count / 8).max(100) {
                let dd = 1 + rng.below(3);
                let inner = gens::rand_rule(&mut rng, dd);
                let lg = |v: Value| corpus::op("log", vec![v]);
                let r = match rng.below(10) {
                    0 => corpus::op("or", vec![corpus::var("f"), lg(corpus::var("z"))]),
                    1 => corpus::op("or", vec![lg(corpus::var("f")), lg(inner)]),
                    2 => corpus::op("and", vec![corpus::var("t"), lg(corpus::var("z"))]),
                    3 => corpus::op("and", vec![lg(corpus::var("t")), lg(inner), lg(corpus::var("f"))]),
                    4 => corpus::op("if", vec![lg(corpus::var("f")), lg(json!(1)), lg(corpus::var("t")), lg(inner)]),
                    5 => corpus::op("map", vec![json!([1, 2]), lg(corpus::var(""))]),
                    6 => corpus::op("filter", vec![json!([0, 1]), lg(corpus::var(""))]),
                    7 => corpus::op("reduce", vec![json!([1, 2]), lg(corpus::var("current")), lg(json!(0))]),
                    8 => corpus::op("some", vec![json!([0, 1, 2]), lg(corpus::var(""))]),
                    _ => lg(inner),
                };
                log_cases.push(Case { work: Work::Apply { rule: r, data: json!({"t": 1, "f": 0, "z": ""}) }, tag: "log-in-lazy".into() });
            }
            simple(log_cases, &mut emitted);
            let rounds = if thorough { 12 } else { 3 };
            for round in 0..rounds {
                let pool_n = 40 + rng.below(30);
                let pool = gens::gen_c17_pool(&mut rng, pool_n);
                // each call in isolation, in its own process
                let iso: Vec<Obs> = pool
                    .iter()
                    .map(|(r, d)| runner::run_all(&exe, &[Work::Apply { rule: r.clone(), data: d.clone() }], 20).remove(0))
                    .collect();
                let iso_term = list_term(&iso.iter().map(obs1_of_obs).collect::<Vec<_>>());
                let crashed_iso = iso.iter().any(is_crash);
                // histories: repetition, failing calls in a row, permutations
                for h in 0..3 {
                    let len = 50 + rng.below(if thorough { 450 } else { 150 });
                    let mut seq: Vec<usize> = (0..len).map(|_| rng.below(pool.len())).collect();
                    if h == 1 {
                        // bursts of the same (often failing) call
                        let k = rng.below(pool.len().min(12));
                        for j in 0..(len / 2) {
                            seq[j] = k;
                        }
                    }
                    if h == 2 {
                        seq.reverse();
                        seq.extend(0..pool.len());
                    }
                    let calls: Vec<(Value, Value)> = seq.iter().map(|i| pool[*i].clone()).collect();
                    let o = runner::run_all(&exe, &[Work::History { calls }], 120).remove(0);
                    emitted.push(Emitted {
                        work_term: format!("(WHistory {} {} {})", pool_term(&pool), iso_term, list_term(&seq.iter().map(|i| format!("{}%nat", i)).collect::<Vec<_>>())),
                        obs_term: obs_term(&o),
                        tag: format!("history:{}", h),
                        record: json!({"tag": format!("history:{}", h), "round": round, "len": seq.len(), "pool": pool.len(), "seq": seq, "obs": obs_json(&o),
                                       "pool_calls": pool.iter().map(|(r, d)| json!([r, d])).collect::<Vec<_>>()}),
                        crashed: is_crash(&o) || crashed_iso,
                    });
                }
                let threads = 16;
                // lines logged concurrently arrive whole: the multiset of lines written by 16
                // threads is 16 times the lines of the calls made one by one
                {
                    let lp: Vec<(Value, Value)> = (0..6)
                        .map(|k| {
                            let payload: Vec<Value> = (0..150 + 40 * k).map(|_| json!(k)).collect();
                            (json!({"log": {"var": ""}}), json!({"payload": payload, "who": format!("call-{}", k), "text": "é".repeat(100 + k)}))
                        })
                        .collect();
                    let mut want: Vec<String> = Vec::new();
                    for (r, d) in lp.iter() {
                        if let Obs::Ok { logs, .. } = runner::run_all(&exe, &[Work::Apply { rule: r.clone(), data: d.clone() }], 20).remove(0) {
                            for _ in 0..threads {
                                want.extend(logs.iter().cloned());
                            }
                        }
                    }
                    let o = runner::run_all(&exe, &[Work::Threads { calls: lp.clone(), threads }], 120).remove(0);
                    let mut got: Vec<String> = match &o { Obs::Multi { logs, .. } => logs.clone(), _ => Vec::new() };
                    want.sort();
                    got.sort();
                    let whole = want == got && !want.is_empty();
                    let iso1: Vec<Obs> = lp.iter().map(|(r, d)| runner::run_all(&exe, &[Work::Apply { rule: r.clone(), data: d.clone() }], 20).remove(0)).collect();
                    let iso1_term = list_term(&iso1.iter().map(obs1_of_obs).collect::<Vec<_>>());
                    emitted.push(Emitted {
                        work_term: format!("(WThreads {} {} {}%nat)", pool_term(&lp), iso1_term, threads),
                        obs_term: if whole { obs_term(&o) } else { "ObsAbort".to_string() },
                        tag: "threads-log".into(),
                        record: json!({"tag": "threads-log", "round": round, "threads": threads, "lines_whole": whole, "lines_expected": want.len(), "lines_seen": got.len(),
                                       "torn": got.iter().filter(|l| !want.contains(l)).take(3).collect::<Vec<_>>(), "obs": obs_json(&o)}),
                        crashed: !whole || is_crash(&o),
                    });
                }
                let o = runner::run_all(&exe, &[Work::Threads { calls: pool.clone(), threads }], 120).remove(0);
                emitted.push(Emitted {
                    work_term: format!("(WThreads {} {} {}%nat)", pool_term(&pool), iso_term, threads),
                    obs_term: obs_term(&o),
                    tag: "threads".into(),
                    record: json!({"tag": "threads", "round": round, "pool": pool.len(), "threads": threads, "obs": obs_json(&o),
                                   "pool_calls": pool.iter().map(|(r, d)| json!([r, d])).collect::<Vec<_>>()}),
                    crashed: is_crash(&o),
                });
            }
        }
        "FILE" => {
            // (rule, data) pairs in the exact token encoding, one JSON object per line
            let text = std::fs::read_to_string(get_arg(args, "--file", "")).unwrap_or_default();
            let mut cases = Vec::new();
            for l in text.lines() {
                if let Ok(v) = serde_json::from_str::<Value>(l) {
                    cases.push(Case { work: Work::Apply { rule: runner::dec(&v["rule"]), data: runner::dec(&v["data"]) }, tag: "file".into() });
                }
            }
            simple(cases, &mut emitted);
        }
        "ES" => {
            // the ECMAScript engine installed here (node) as the oracle for the conversion and
            // comparison helpers: S and M are checked against what JavaScript itself computes
            let picked: Vec<Case> = all_cases(&from, &mut rng, count * 4, thorough)
                .into_iter()
                .filter(|c| matches!(&c.work, Work::Helper { name, .. } if ES_HELPERS.contains(&name.as_str())))
                .collect();
            // a deterministic shuffle (the generators emit helpers in fixed cycles), then a prefix
            let mut picked = picked;
            for i in (1..picked.len()).rev() {
                let j = rng.below(i + 1);
                picked.swap(i, j);
            }
            picked.truncate(count);
            if get_arg(args, "--stage", "cases") == "cases" {
                let mut f = std::io::BufWriter::new(std::fs::File::create(format!("{}/es_cases.jsonl", out_dir)).unwrap());
                for (i, c) in picked.iter().enumerate() {
                    if let Work::Helper { name, args } = &c.work {
                        let texts: Vec<String> = args.iter().map(|a| serde_json::to_string(a).unwrap()).collect();
                        let nums: Vec<Vec<String>> = args.iter().map(|a| { let mut v = Vec::new(); spellings(a, name == "to_string", &mut v); v }).collect();
                        writeln!(f, "{}", json!({"i": i, "fn": name, "args": texts, "nums": nums})).unwrap();
                    }
                }
                println!("{{\"stage\":\"cases\",\"n\":{}}}", picked.len());
                return;
            }
            let text = std::fs::read_to_string(format!("{}/es_results.jsonl", out_dir)).unwrap_or_default();
            let mut results: BTreeMap<usize, Value> = BTreeMap::new();
            for l in text.lines() {
                if let Ok(v) = serde_json::from_str::<Value>(l) {
                    results.insert(v["i"].as_u64().unwrap_or(u64::MAX) as usize, v);
                }
            }
            for (i, c) in picked.iter().enumerate() {
                let r = match results.get(&i) {
                    Some(r) => r,
                    None => continue,
                };
                if r["skip"].as_bool().unwrap_or(false) {
                    continue;
                }
                let tag = format!("node:{}", c.tag);
                let o = Obs::Helper { r: r["r"].clone() };
                emitted.push(Emitted {
                    work_term: work_term(&c.work),
                    obs_term: obs_term(&o),
                    tag: tag.clone(),
                    record: json!({"tag": tag, "oracle": "node", "work": runner::work_to_json(&c.work), "obs": obs_json(&o)}),
                    crashed: false,
                });
            }
        }
        "C18" if !from.is_empty() => {
            // another property's cases, through the command line
            // (C17's cases are sequences: they are kept whole, in order)
            let mut picked = plain_cases(&from, &mut rng, if from == "C17" { count } else { count * 4 }, thorough);
            let step = (picked.len() / count.max(1)).max(1);
            picked = head_and_sample(picked, step, count);
            let picked = if from == "C17" { picked } else { with_lifted(picked, &mut rng) };
            for e in boundary::cli_from_plain(&mut rng, &picked) {
                emitted.push(Emitted { work_term: e.work_term, obs_term: e.obs_term, tag: e.tag, record: e.record, crashed: e.crashed });
            }
        }
        "C19" if !from.is_empty() && get_arg(args, "--stage", "cases") == "cases" => {
            let mut picked = plain_cases(&from, &mut rng, if from == "C17" { count } else { count * 4 }, thorough);
            let step = (picked.len() / count.max(1)).max(1);
            picked = head_and_sample(picked, step, count);
            let picked = if from == "C17" { picked } else { with_lifted(picked, &mut rng) };
            boundary::py_cases_from_plain(&picked, &format!("{}/py_cases.jsonl", out_dir));
            println!("{{\"stage\":\"cases\"}}");
            return;
        }
        "C18" => {
            for e in boundary::gen_c18(&mut rng, count.min(if thorough { 20000 } else { 1500 }), thorough) {
                emitted.push(Emitted { work_term: e.work_term, obs_term: e.obs_term, tag: e.tag, record: e.record, crashed: e.crashed });
            }
        }
        "C19" => {
            let stage = get_arg(args, "--stage", "cases");
            if stage == "cases" {
                boundary::gen_c19_cases(&mut rng, count.min(if thorough { 20000 } else { 1500 }), &format!("{}/py_cases.jsonl", out_dir));
                println!("{{\"stage\":\"cases\"}}");
                return;
            }
            for e in boundary::emit_c19(&format!("{}/py_results.jsonl", out_dir)) {
                emitted.push(Emitted { work_term: e.work_term, obs_term: e.obs_term, tag: e.tag, record: e.record, crashed: e.crashed });
            }
        }
        other => {
            eprintln!("no generator for {}", other);
            std::process::exit(2);
        }
    }

    let prop = as_prop;
    let nshards = write_shards(&prop, &out_dir, &emitted, shards).unwrap();
    // records for replay / evidence
    let mut f = std::io::BufWriter::new(std::fs::File::create(format!("{}/cases_{}.jsonl", out_dir, prop)).unwrap());
    let mut dist: BTreeMap<String, usize> = BTreeMap::new();
    let mut outcomes: BTreeMap<String, usize> = BTreeMap::new();
    let mut distinct = std::collections::BTreeSet::new();
    let mut nontrivial = 0usize;
    for (i, e) in emitted.iter().enumerate() {
        let mut r = e.record.clone();
        r["i"] = json!(i);
        r["profile"] = json!(profile);
        writeln!(f, "{}", r).unwrap();
        let t = e.tag.split(':').next().unwrap_or("").to_string();
        *dist.entry(t).or_insert(0) += 1;
        let oc = if e.obs_term.starts_with("(ObsOk") { "ok" } else if e.obs_term.starts_with("(ObsErr") { "err" }
            else if e.obs_term.starts_with("(ObsHelper") { "helper" } else if e.obs_term.starts_with("(ObsPair") { "pair" }
            else if e.obs_term.starts_with("(ObsMulti") { "multi" }
            else if e.obs_term.starts_with("(ObsCli [") && e.obs_term.ends_with(" 0)") { "exit0" } else if e.obs_term.starts_with("(ObsCli") { "exit-nonzero" }
            else if e.obs_term.starts_with("(ObsPy (PyReturn") { "returned" } else if e.obs_term.starts_with("(ObsPy PyValueError") { "ValueError" } else { "crash" };
        *outcomes.entry(oc.to_string()).or_insert(0) += 1;
        if distinct.insert(e.work_term.clone()) {
            // non-trivial: not a bare scalar literal as the rule
            if !(e.work_term.starts_with("(WApply Null") || e.work_term.starts_with("(WApply (Bool") || e.work_term.starts_with("(WApply (Num") || e.work_term.starts_with("(WApply (Str")) {
                nontrivial += 1;
            }
        }
    }
    let summary = json!({
        "property": prop, "seed": seed, "tier": if thorough { "thorough" } else { "quick" }, "profile": profile,
        "cases": emitted.len(), "distinct_nontrivial": nontrivial, "shards": nshards,
        "by_generator": dist, "by_outcome": outcomes,
        "crashed": emitted.iter().enumerate().filter(|(_, e)| e.crashed).map(|(i, _)| i).collect::<Vec<_>>(),
    });
    std::fs::write(format!("{}/summary_{}.json", out_dir, prop), serde_json::to_string_pretty(&summary).unwrap()).unwrap();
    println!("{}", summary);
}

/// For the entry points that (de)serialise the whole data: each picked case also with one
/// literal operand of its top-level operation moved into the data and read back with
/// {"var": ""}, so that the property's own operators meet 0, 1, "", false, [] ... as the
/// top-level data value (where a wrapper is most likely to mistreat them).
fn with_lifted(picked: Vec<(Value, Value, String)>, rng: &mut Rng) -> Vec<(Value, Value, String)> {
    let mut out = Vec::new();
    for (rule, data, tag) in picked.into_iter() {
        let mut lifted = None;
        if let Value::Object(m) = &rule {
            if m.len() == 1 {
                let (name, args) = m.iter().next().unwrap();
                if let Value::Array(args) = args {
                    let idx: Vec<usize> = (0..args.len()).filter(|i| !corpus::is_operation(&args[*i])).collect();
                    if !idx.is_empty() {
                        let i = idx[rng.below(idx.len())];
                        let mut a2 = args.clone();
                        let d2 = std::mem::replace(&mut a2[i], corpus::var(""));
                        lifted = Some((corpus::op(name, a2), d2, format!("lift:{}", tag)));
                    }
                }
            }
        }
        out.push((rule, data, tag));
        if let Some(l) = lifted {
            out.push(l);
        }
    }
    out
}

/// the head of a generator's output (its fixed and regression cases) in full, then an even
/// sample of the rest
fn head_and_sample(cases: Vec<(Value, Value, String)>, step: usize, count: usize) -> Vec<(Value, Value, String)> {
    if step <= 1 {
        return cases.into_iter().take(count).collect();
    }
    let head = (count / 3).min(cases.len());
    let mut out: Vec<(Value, Value, String)> = cases[..head].to_vec();
    out.extend(cases[head..].iter().step_by(step).take(count - head).cloned());
    out
}

const ES_HELPERS: [&str; 12] = [
    "abstract_eq", "abstract_ne", "strict_eq", "strict_ne", "abstract_lt", "abstract_gt", "abstract_lte", "abstract_gte",
    "to_string", "to_number", "parse_float", "str_to_number",
];

/// JSON spellings of the numbers whose string form JavaScript would use: those inside arrays
/// (pre-order, not descending into objects, which print as [object Object]) and, for
/// to_string, a top-level number.  The oracle skips a case when String(n) differs from the
/// JSON text (the property defines a number's string form as its JSON text).
fn spellings(v: &Value, top: bool, out: &mut Vec<String>) {
    match v {
        Value::Number(_) if top => out.push(serde_json::to_string(v).unwrap()),
        Value::Array(xs) => {
            for x in xs {
                spellings(x, true, out);
            }
        }
        _ => {}
    }
}

fn emit_pair(a: &Case, oa: &Obs, b: &Case, ob: &Obs) -> Emitted {
    Emitted {
        work_term: format!("(WPair {} {})", work_term(&a.work), work_term(&b.work)),
        obs_term: format!("(ObsPair {} {})", obs_term(oa), obs_term(ob)),
        tag: a.tag.clone(),
        record: json!({"tag": a.tag, "work": runner::work_to_json(&a.work), "obs": obs_json(oa),
                       "work2": runner::work_to_json(&b.work), "obs2": obs_json(ob)}),
        crashed: is_crash(oa) || is_crash(ob),
    }
}
