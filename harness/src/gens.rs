//! Per-property case generators.  Every random choice comes from the one Rng passed in.
use crate::corpus::*;
use crate::prng::Rng;
use crate::runner::Work;
use serde_json::{json, Map, Value};

pub struct Case {
    pub work: Work,
    pub tag: String,
}

fn apply(tag: &str, rule: Value, data: Value) -> Case {
    Case { work: Work::Apply { rule: norm(&rule), data: norm(&data) }, tag: tag.to_string() }
}
fn helper(tag: &str, name: &str, args: Vec<Value>) -> Case {
    Case {
        work: Work::Helper { name: name.to_string(), args: args.iter().map(norm).collect() },
        tag: tag.to_string(),
    }
}

/// A random rule, mostly arity-valid, over all operators.  `names` are data paths that exist.
pub fn rand_rule(rng: &mut Rng, depth: usize) -> Value {
    if depth == 0 || rng.chance(1, 4) {
        return match rng.below(6) {
            0 => var(&rand_key(rng)),
            1 => var(""),
            2 => rand_value(rng, 1),
            _ => rand_scalar(rng),
        };
    }
    let ops = all_ops();
    let name = *rng.pick(&ops);
    let d = depth - 1;
    let mut sub = |rng: &mut Rng| rand_rule(rng, d);
    let args: Vec<Value> = match name {
        "==" | "!=" | "===" | "!==" | "/" | "%" | "in" => vec![sub(rng), sub(rng)],
        "!" | "!!" | "log" => vec![sub(rng)],
        "<" | "<=" | ">" | ">=" => (0..2 + rng.below(2)).map(|_| sub(rng)).collect(),
        "+" | "*" | "max" | "min" | "cat" | "merge" | "and" | "or" => (0..1 + rng.below(3)).map(|_| sub(rng)).collect(),
        "-" => (0..1 + rng.below(2)).map(|_| sub(rng)).collect(),
        "substr" => {
            let mut a = vec![sub(rng), int(rng.range(-5, 5))];
            if rng.chance(1, 2) {
                a.push(int(rng.range(-5, 5)));
            }
            a
        }
        "var" => match rng.below(3) {
            0 => vec![Value::String(rand_key(rng))],
            1 => vec![Value::String(rand_key(rng)), sub(rng)],
            _ => vec![sub(rng)],
        },
        "missing" => (0..rng.below(3)).map(|_| Value::String(rand_key(rng))).collect(),
        "missing_some" => vec![
            int(rng.range(0, 3)),
            Value::Array((0..rng.below(4)).map(|_| Value::String(rand_key(rng))).collect()),
        ],
        "if" | "?:" => (0..rng.below(6)).map(|_| sub(rng)).collect(),
        "map" | "filter" | "all" | "some" | "none" => {
            let coll = if rng.chance(1, 2) {
                Value::Array((0..rng.below(4)).map(|_| sub(rng)).collect())
            } else {
                sub(rng)
            };
            vec![coll, sub(rng)]
        }
        "reduce" => {
            let coll = Value::Array((0..rng.below(4)).map(|_| sub(rng)).collect());
            let step = match rng.below(3) {
                0 => op("+", vec![var("current"), var("accumulator")]),
                1 => op("cat", vec![var("accumulator"), var("current")]),
                _ => sub(rng),
            };
            vec![coll, step, sub(rng)]
        }
        _ => vec![sub(rng)],
    };
    // occasionally break the arity, or use the bare-operand spelling
    if rng.chance(1, 25) {
        let mut a = args;
        if rng.chance(1, 2) {
            a.pop();
        } else {
            a.push(sub(rng));
        }
        return op(name, a);
    }
    if args.len() == 1 && !args[0].is_array() && rng.chance(1, 4) {
        return op1(name, args[0].clone());
    }
    op(name, args)
}

fn rand_data(rng: &mut Rng) -> Value {
    match rng.below(6) {
        0 => Value::Null,
        1 => rand_value(rng, 2),
        2 => Value::Array((0..rng.below(4)).map(|_| rand_value(rng, 1)).collect()),
        _ => {
            let mut m = Map::new();
            for _ in 0..1 + rng.below(4) {
                m.insert(rand_key(rng), rand_value(rng, 2));
            }
            Value::Object(m)
        }
    }
}

pub fn json_depth(v: &Value) -> usize {
    match v {
        Value::Array(a) => 1 + a.iter().map(json_depth).max().unwrap_or(0),
        Value::Object(m) => 1 + m.values().map(json_depth).max().unwrap_or(0),
        _ => 0,
    }
}

/// one nesting step of the given form
fn nest_form(form: usize, r: Value) -> Value {
    match form {
        0 => op("!", vec![r]),
        1 => op("!!", vec![r]),
        2 => op("cat", vec![s("a"), r]),
        3 => op("merge", vec![r, int(1)]),
        4 => op("if", vec![json!(true), r, int(0)]),
        5 => op("and", vec![int(1), r]),
        6 => op("or", vec![int(0), r]),
        7 => op("var", vec![s("nope"), r]),
        8 => op("map", vec![Value::Array(vec![r]), var("")]),
        9 => op("+", vec![int(1), r]),
        10 => op("some", vec![Value::Array(vec![r]), json!(true)]),
        11 => op("reduce", vec![Value::Array(vec![int(1)]), var("current"), r]),
        12 => op("or", vec![r]),
        13 => op("and", vec![r]),
        14 => op("if", vec![r]),
        15 => op("if", vec![json!(false), int(0), r]),
        16 => op("filter", vec![Value::Array(vec![int(1)]), r]),
        17 => op("all", vec![Value::Array(vec![int(1)]), r]),
        18 => op("none", vec![Value::Array(vec![r]), json!(false)]),
        19 => op("-", vec![r]),
        20 => op("max", vec![r]),
        21 => op("?:", vec![r, r_clone_marker(), int(0)]),
        _ => op("log", vec![r]),
    }
}
fn r_clone_marker() -> Value {
    int(1)
}
pub const NEST_FORMS: usize = 23;

/// a chain of one form, as deep as the text interfaces allow
pub fn uniform_chain(form: usize, levels: usize, leaf: Value) -> Value {
    let mut r = leaf;
    for _ in 0..levels {
        let next = nest_form(form, r.clone());
        if json_depth(&next) > 126 {
            break;
        }
        r = next;
    }
    r
}

fn nest(rng: &mut Rng, depth: usize, leaf: Value) -> Value {
    let mut r = leaf;
    for _ in 0..depth {
        if json_depth(&r) + 4 > 126 {
            break; // the text interfaces deliver at most 128 levels
        }
        r = match rng.below(12) {
            0 => op("!", vec![r]),
            1 => op("!!", vec![r]),
            2 => op("cat", vec![s("a"), r]),
            3 => op("merge", vec![r, int(1)]),
            4 => op("if", vec![json!(true), r, int(0)]),
            5 => op("and", vec![int(1), r]),
            6 => op("or", vec![int(0), r]),
            7 => op("var", vec![s("nope"), r]),
            8 => op("map", vec![Value::Array(vec![r]), var("")]),
            9 => op("+", vec![int(1), r]),
            10 => op("some", vec![Value::Array(vec![r]), json!(true)]),
            _ => op("reduce", vec![Value::Array(vec![int(1)]), var("current"), r]),
        };
    }
    r
}

const HELPERS2: &[&str] = &[
    "abstract_eq", "abstract_ne", "strict_eq", "strict_ne", "abstract_lt", "abstract_gt", "abstract_lte", "abstract_gte",
    "abstract_plus", "abstract_minus", "abstract_div", "abstract_mod",
];
const HELPERS1: &[&str] = &[
    "to_string", "to_number", "parse_float", "to_negative", "strict_eq_same", "abstract_eq_same", "abstract_ne_same",
    "abstract_lt_same", "abstract_gt_same", "abstract_lte_same", "abstract_gte_same", "abstract_plus_same",
];
const HELPERSN: &[&str] = &["abstract_max", "abstract_min", "parse_float_add", "parse_float_mul"];

pub fn gen_c01(rng: &mut Rng, count: usize, thorough: bool) -> Vec<Case> {
    let vals = values();
    let mut out = Vec::new();
    // regression corpus: inputs that used to panic / overflow the stack
    let selfref = json!({"var": ["nope", {"var": ""}]});
    out.push(apply("regress", selfref.clone(), selfref));
    let someref = json!({"some": [{"var": ""}, true]});
    out.push(apply("regress", someref.clone(), Value::Array(vec![someref])));
    for d in [json!([1, 2]), s("abc"), json!({"a": 1})] {
        out.push(apply("regress", op("var", vec![int(i64::MIN)]), d.clone()));
        out.push(apply("regress", op("var", vec![s("-9223372036854775808")]), d.clone()));
        out.push(apply("regress", op("var", vec![s("a.-9223372036854775808")]), json!({"a": d})));
    }
    out.push(apply("regress", op("substr", vec![s("abc"), int(i64::MIN)]), Value::Null));
    out.push(apply("regress", op("substr", vec![s("abc"), int(0), int(i64::MIN)]), Value::Null));
    out.push(apply("regress", op("substr", vec![s("héllo"), int(i64::MAX), int(i64::MAX)]), Value::Null));
    out.push(apply("regress", op("%", vec![int(i64::MIN), int(-1)]), Value::Null));
    out.push(apply("regress", var("\\é"), json!({"é": 1})));
    out.push(helper("regress", "abstract_plus", vec![fl(1.5e308), fl(1.5e308)]));
    out.push(helper("regress", "abstract_plus", vec![fl(-1.5e308), fl(-1.5e308)]));
    // every operator x operand count 0..6 x operand tuples, both spellings
    let per = if thorough { 12 } else { 3 };
    for name in all_ops() {
        for n in 0..=6usize {
            for _ in 0..per {
                let args: Vec<Value> = (0..n)
                    .map(|_| if rng.chance(3, 4) { rng.pick(&vals).clone() } else { rand_value(rng, 2) })
                    .collect();
                out.push(apply(&format!("op-count:{}", name), op(name, args), rand_data(rng)));
            }
        }
        for _ in 0..per {
            let v = rng.pick(&vals).clone();
            out.push(apply(&format!("op-bare:{}", name), op1(name, v), rand_data(rng)));
        }
    }
    // 64-bit extremes in index positions
    let extremes = [int(i64::MIN), int(i64::MIN + 1), int(i64::MAX), uint(u64::MAX), uint(1 << 63), int(-1), int(0)];
    for e in extremes.iter() {
        for d in [json!([1, 2, 3]), s("héllo"), json!({"a": [1]}), Value::Null] {
            out.push(apply("extreme-index", op("var", vec![e.clone()]), d.clone()));
            out.push(apply("extreme-index", op("missing", vec![e.clone()]), d.clone()));
            out.push(apply("extreme-index", op("missing_some", vec![e.clone(), Value::Array(vec![e.clone()])]), d.clone()));
        }
        for e2 in extremes.iter() {
            out.push(apply("extreme-index", op("substr", vec![s("héllo wörld"), e.clone(), e2.clone()]), Value::Null));
        }
        out.push(apply("extreme-index", op("substr", vec![s("日本語"), e.clone()]), Value::Null));
    }
    // deep nesting (the text interface allows 128 levels of JSON)
    for depth in [1usize, 5, 20, 40, 60, 120] {
        for _ in 0..(if thorough { 8 } else { 3 }) {
            let leaf = rand_rule(rng, 1);
            out.push(apply("deep", nest(rng, depth, leaf), rand_data(rng)));
        }
    }
    // every nesting form, chained with itself as deep as 128 JSON levels allow (exponential
    // re-evaluation or per-level stack growth shows up here as a timeout or an abort)
    for form in 0..NEST_FORMS {
        for leaf in [var("a"), json!(0), json!({"-": ["abc", 1]})] {
            out.push(apply("deep-uniform", uniform_chain(form, 70, leaf), json!({"a": 7})));
        }
    }
    // long non-ASCII strings in failing and succeeding positions (error texts, cat, substr)
    for t in ["\u{20ac}", "\u{e9}", "\u{65e5}", "\u{1f600}", "a"] {
        for n in [85usize, 100, 127, 128, 129, 300] {
            let long: String = std::iter::repeat(t).take(n).collect();
            out.push(apply("long-string", op("+", vec![Value::String(long.clone())]), Value::Null));
            out.push(apply("long-string", op("*", vec![var("x"), int(2)]), json!({"x": format!("a{}", long)})));
            out.push(apply("long-string", op("substr", vec![Value::String(long.clone()), int(-3)]), Value::Null));
            out.push(apply("long-string", op("var", vec![json!([Value::String(long.clone())])]), Value::Null));
        }
    }
    // helpers
    let hn = if thorough { count } else { count / 4 };
    for _ in 0..hn {
        let a = rng.pick(&vals).clone();
        let b = if rng.chance(1, 5) { rand_value(rng, 2) } else { rng.pick(&vals).clone() };
        match rng.below(3) {
            0 => out.push(helper("helper2", *rng.pick(HELPERS2), vec![a, b])),
            1 => out.push(helper("helper1", *rng.pick(HELPERS1), vec![a])),
            _ => {
                let n = rng.below(4);
                let mut args = vec![a, b];
                args.truncate(n.min(2));
                for _ in 2..n {
                    args.push(rng.pick(&vals).clone());
                }
                out.push(helper("helperN", *rng.pick(HELPERSN), args));
            }
        }
        if rng.chance(1, 6) {
            out.push(helper("helper1", "str_to_number", vec![Value::String(rand_string(rng))]));
        }
    }
    // random rules
    while out.len() < count {
        let dd = 1 + rng.below(4);
        out.push(apply("random-rule", rand_rule(rng, dd), rand_data(rng)));
    }
    // the listed known finding KF1 (known_findings.json): reduce nesting its own context once per
    // element; the value it builds is as deep as the collection is long
    out.push(apply("known:KF1", json!({"reduce": [{"var": ""}, {"var": ""}, 0]}), Value::Array(vec![int(0); 20_000])));
    // inputs that are big, not deep: recursion must not grow with the length of a string or array
    {
        let long_path = format!("a{}", ".0".repeat(4_000));
        out.push(apply("big:path", op("var", vec![s(&long_path)]), json!({"a": "x"})));
        out.push(apply("big:path", op("missing", vec![s(&long_path), s(&format!("{}.1", long_path))]), json!({"a": "x"})));
        let wide: Vec<Value> = (0..2_500).map(|i| int(i % 7)).collect();
        let d = json!({"xs": wide, "t": "é".repeat(2_500)});
        for r in [
            op("map", vec![var("xs"), op("+", vec![var(""), int(1)])]), op("filter", vec![var("xs"), var("")]), op("all", vec![var("xs"), json!(true)]),
            op("merge", vec![var("xs"), var("xs")]), op("max", vec![var("xs")]), op("in", vec![int(9), var("xs")]), op("cat", vec![var("t"), var("t")]),
            op("substr", vec![var("t"), int(-3)]), op("in", vec![s("z"), var("t")]), op("==", vec![var("t"), var("xs")]), op("some", vec![var("t"), op("===", vec![var(""), s("z")])]),
            op("missing", vec![var("xs")]),
        ] {
            out.push(apply("big:wide", r, d.clone()));
        }
    }

    out
}

/// literals: values that are not operations
fn literal_pool(rng: &mut Rng) -> Value {
    let names = all_ops();
    match rng.below(9) {
        0 => rand_scalar(rng),
        1 => rng.pick(&values()).clone(),
        2 => {
            // multi-key object containing operator keys
            let mut m = Map::new();
            m.insert(rng.pick(&names).to_string(), rand_value(rng, 1));
            m.insert(if rng.chance(1, 2) { rng.pick(&names).to_string() } else { rand_key(rng) }, rand_value(rng, 1));
            if rng.chance(1, 3) {
                m.insert(rand_key(rng), rand_value(rng, 1));
            }
            if m.len() < 2 {
                m.insert("zz".into(), int(1));
            }
            Value::Object(m)
        }
        3 => {
            // near miss of an operator name
            let n = *rng.pick(&names);
            let k = match rng.below(8) {
                0 => format!("{} ", n),
                1 => format!(" {}", n),
                2 => n.to_uppercase(),
                3 => format!("{}x", n),
                4 => n[..n.len() - 1].to_string(),
                5 => format!("{}\u{0}", n),
                6 => format!("{}{}", n, n),
                _ => n.replace('a', "а").replace('o', "о").replace('i', "і"), // homoglyphs
            };
            let mut m = Map::new();
            m.insert(k, if rng.chance(1, 2) { json!([1, 2]) } else { rand_value(rng, 1) });
            let v = Value::Object(m);
            if is_operation(&v) {
                json!({})
            } else {
                v
            }
        }
        4 => Value::Array((0..rng.below(4)).map(|_| if rng.chance(1, 2) { var("a") } else { rand_value(rng, 1) }).collect()),
        5 => json!({}),
        6 => {
            let mut m = Map::new();
            m.insert(rand_string(rng), rand_value(rng, 2));
            let v = Value::Object(m);
            if is_operation(&v) {
                json!({})
            } else {
                v
            }
        }
        7 => json!({"a": {"var": "a"}, "b": [{"+": [1, 2]}]}),
        _ => json!([[{"!": [true]}], {"var": "a"}, {"==": [1]}]),
    }
}

pub fn gen_c02(rng: &mut Rng, count: usize, _thorough: bool) -> Vec<Case> {
    let mut out = Vec::new();
    out.push(apply("regress", json!({"+": [1, 2], "note": "sum"}), json!({})));
    out.push(apply("regress", json!({"var": "a", "zzz": 1}), json!({"a": 5})));
    out.push(apply("regress", json!([{"var": "a"}]), json!({"a": 1})));
    out.push(apply("regress", json!({"merge": [[{"var": "a"}]]}), json!({"a": 1})));
    // all 35 names dispatch
    for name in all_ops() {
        let args = match name {
            "reduce" => vec![json!([1]), int(1), int(0)],
            "!" | "!!" | "log" => vec![int(1)],
            "substr" => vec![s("abc"), int(1)],
            "missing_some" => vec![int(1), json!(["a"])],
            "map" | "filter" | "all" | "some" | "none" => vec![json!([1]), int(1)],
            _ => vec![int(1), int(2)],
        };
        out.push(apply(&format!("dispatch:{}", name), op(name, args), json!({"a": 1})));
    }
    // a supported key is always dispatched: with a wrong operand count it is an error, never a literal
    for name in all_ops() {
        for n in 0..=4usize {
            out.push(apply(&format!("dispatch-count:{}", name), op(name, benign_args(name, n, rng)), json!({"a": 1, "b": [1, 2]})));
        }
        out.push(apply(&format!("dispatch-bare:{}", name), op1(name, s("abc")), json!({"a": 1})));
    }
    while out.len() < count {
        let v = literal_pool(rng);
        if is_operation(&v) {
            continue;
        }
        if rng.chance(1, 3) {
            // a literal array (holding operation-shaped members) as an operand of any operator:
            // nothing inside it is evaluated
            let lit = Value::Array(vec![v.clone(), var("a"), json!({"+": [1, 2]}), json!({"==": [1]})]);
            let d = json!({"a": 1, "xs": [1, {"var": "a"}], "needle": {"var": "a"}});
            let r = match rng.below(19) {
                // one level below the collection of a quantifier nothing is evaluated any more
                14 => op(*rng.pick(&["some", "all", "none"]), vec![Value::Array(vec![lit]), op("in", vec![int(1), var("")])]),
                15 => op(*rng.pick(&["some", "all", "none"]), vec![Value::Array(vec![int(0), Value::Array(vec![json!({"var": "a"})])]), op("in", vec![int(1), var("")])]),
                16 => op(*rng.pick(&["some", "all", "none"]), vec![Value::Array(vec![Value::Array(vec![json!({"var": [1, 2, 3]})])]), json!(false)]),
                17 => op(*rng.pick(&["map", "filter"]), vec![Value::Array(vec![lit]), op("in", vec![int(1), var("")])]),
                18 => op("in", vec![var("needle"), Value::Array(vec![json!({"var": "a"}), int(2)])]),
                0 => op("merge", vec![lit]),
                1 => op("in", vec![var("a"), lit]),
                2 => op("in", vec![int(3), lit]),
                3 => op("cat", vec![lit]),
                4 => op("==", vec![lit.clone(), lit]),
                5 => op("map", vec![lit, var("")]),
                6 => op("filter", vec![lit, json!(true)]),
                7 => op("reduce", vec![lit, op("merge", vec![var("accumulator"), var("current")]), json!([])]),
                8 => op("if", vec![json!(true), lit]),
                9 => op("or", vec![lit]),
                10 => op("and", vec![int(1), lit]),
                11 => op("var", vec![s("nope"), lit]),
                12 => op("max", vec![Value::Array(vec![int(2)]), int(1)]),
                _ => op("!!", vec![Value::Array(vec![lit])]),
            };
            out.push(apply("literal-operand", r, d));
        } else {
            out.push(apply("literal", v, rand_data(rng)));
        }
    }
    out
}

fn benign_args(name: &str, n: usize, rng: &mut Rng) -> Vec<Value> {
    // operands with which an arity-valid call evaluates without a type error
    (0..n)
        .map(|i| match name {
            "substr" => if i == 0 { s("abcdef") } else { int(rng.range(0, 3)) },
            "in" => if i == 1 { json!([1, 2, 3]) } else { int(rng.range(0, 4)) },
            "map" | "filter" | "all" | "some" | "none" | "reduce" => {
                if i == 0 { json!([1, 2, 3]) } else { int(rng.range(0, 2)) }
            }
            "missing_some" => if i == 1 { json!(["a", "zz"]) } else { int(rng.range(0, 2)) },
            "var" | "missing" => if i == 0 { s(*rng.pick(&["a", "b", "zz"])) } else { int(rng.range(0, 9)) },
            "/" | "%" => int(rng.range(1, 9)),
            _ => int(rng.range(0, 9)),
        })
        .collect()
}

pub fn gen_c03(rng: &mut Rng, count: usize, thorough: bool) -> Vec<Case> {
    let mut out = Vec::new();
    out.push(apply("regress", op1("merge", Value::Null), Value::Null));
    out.push(apply("regress", op("merge", vec![Value::Null]), Value::Null));
    out.push(apply("regress", op("var", vec![s("a"), int(0), int(0)]), json!({"a": 1})));
    out.push(apply("regress", op("missing_some", vec![int(1)]), json!({})));
    let data = json!({"a": 1, "b": [1, 2]});
    let reps = if thorough { 6 } else { 2 };
    for name in all_ops() {
        for n in 0..=6usize {
            for _ in 0..reps {
                out.push(apply(&format!("count:{}:{}", name, n), op(name, benign_args(name, n, rng)), data.clone()));
            }
        }
    }
    // a wrong count is rejected wherever the operation is reached - in every operand position of
    // every kind of operator, whatever the other operands are (empty collections included)
    let bad = [
        json!({"==": [1]}), json!({"%": [5]}), json!({"substr": ["abc"]}), json!({"in": "x"}), json!({"and": []}), json!({"var": ["a", 1, 2]}),
        json!({"!": [1, 2]}), json!({"map": [[1]]}), json!({"<": [1]}), json!({"missing_some": [1]}), json!({"reduce": [[1], 2]}), json!({"-": []}),
    ];
    for x in bad.iter() {
        let x = x.clone();
        for r in [
            json!({"map": [[], x]}), json!({"map": [null, x]}), json!({"map": [[1], x]}), json!({"filter": [{"var": "nope"}, x]}), json!({"filter": [{"var": "b"}, x]}),
            json!({"reduce": [[], x, 7]}), json!({"reduce": [[1], 1, x]}), json!({"all": [[], x]}), json!({"some": [[], x]}), json!({"none": [null, x]}), json!({"all": [[1], x]}),
            json!({"or": [x, true]}), json!({"or": [0, x, 3]}), json!({"or": [0, x]}), json!({"or": [1, x]}), json!({"and": [x, 0]}), json!({"and": [1, x, 0]}), json!({"and": [0, x]}),
            json!({"if": [x, 1, 2]}), json!({"if": [0, 1, x]}), json!({"if": [true, x, 2]}), json!({"if": [true, 1, x]}), json!({"?:": [0, x, 2]}), json!({"if": [0, 1, x, 2, 3]}),
            json!({"!": [x]}), json!({"!!": x}), json!({"+": [1, x]}), json!({"cat": ["a", x]}), json!({"var": [x]}), json!({"var": ["nope", x]}), json!({"var": ["a", x]}),
            json!({"missing": [x]}), json!({"merge": [x]}), json!({"in": [x, []]}), json!({"==": [x, 1]}), json!({"max": [1, x]}), json!({"log": [x]}), json!({"substr": ["abc", x]}),
        ] {
            out.push(apply("nested-count", r, data.clone()));
        }
    }
    // operand lists of several hundred: 256 operands are not 0 operands
    for name in all_ops() {
        for n in [255usize, 256, 257, 258, 259, 512, 65538] {
            if n > 1000 && name != "==" {
                continue;
            }
            let a: Vec<Value> = (0..n).map(|i| if name == "var" { s("a") } else { int((i % 2) as i64) }).collect();
            out.push(apply(&format!("long:{}:{}", name, n), op(name, a), data.clone()));
        }
    }
    // a surplus operand is rejected whatever it is - null, false, 0, "" and [] included
    for name in all_ops() {
        for n in 1..=4usize {
            for extra in [Value::Null, json!(false), int(0), s(""), json!([])] {
                let mut a = benign_args(name, n, rng);
                a.push(extra.clone());
                out.push(apply(&format!("surplus:{}:{}", name, n + 1), op(name, a.clone()), data.clone()));
                a.push(extra);
                out.push(apply(&format!("surplus:{}:{}", name, n + 2), op(name, a), data.clone()));
            }
        }
    }
    // members of a collection written in the rule are expressions: the bare form of an operator
    // that cannot take one operand is rejected there as anywhere
    for q in ["all", "some", "none"] {
        for m in [json!({"==": 1}), json!({"in": "stock"}), json!({"%": 2}), json!({"<": 1}), json!({"substr": "abc"}), json!({"map": 1}), json!({"!": {"in": "stock"}}), json!({"+": [1, {"/": 2}]})] {
            out.push(apply("member-count", op(q, vec![Value::Array(vec![m.clone()]), json!(true)]), data.clone()));
            out.push(apply("member-count", op(q, vec![Value::Array(vec![int(0), var("a"), m.clone()]), var("")]), data.clone()));
        }
    }
    // the two spellings of one non-array operand: emitted as adjacent pairs (2i, 2i+1)
    let vals = values();
    let mut pairs = Vec::new();
    for name in all_ops() {
        for _ in 0..(if thorough { 30 } else { 8 }) {
            let x = loop {
                let x = if rng.chance(1, 3) { rand_rule(rng, 1) } else { rng.pick(&vals).clone() };
                if !x.is_array() {
                    break x;
                }
            };
            let d = rand_data(rng);
            pairs.push(apply(&format!("bare:{}", name), op1(name, x.clone()), d.clone()));
            pairs.push(apply(&format!("bracketed:{}", name), op(name, vec![x]), d));
        }
    }
    // ... also when the bare operand is an expression whose VALUE is an array
    let arr_data = json!({"l": [1, 5], "parts": ["a", "b"], "nested": [[1], [2]], "e": [], "one": [7], "a": 1, "b": [1, 2]});
    for name in all_ops() {
        for x in [var("l"), var("parts"), var("nested"), var("e"), var("one"), op("merge", vec![var("l"), var("one")]), op("filter", vec![var("l"), json!(true)])] {
            pairs.push(apply(&format!("bare:{}", name), op1(name, x.clone()), arr_data.clone()));
            pairs.push(apply(&format!("bracketed:{}", name), op(name, vec![x]), arr_data.clone()));
        }
    }
    while out.len() % 2 != 0 {
        out.push(apply("pad", json!(1), Value::Null));
    }
    // marker so that the checker knows where pairs start
    let start = out.len();
    out.extend(pairs);
    let _ = (count, start);
    out
}

pub fn c03_pair_start(cases: &[Case]) -> usize {
    cases.iter().position(|c| c.tag.starts_with("bare:")).unwrap_or(cases.len())
}

fn marker_data(rng: &mut Rng) -> Value {
    let markers = [
        json!({"var": "secret"}), json!({"+": ["x"]}), json!({"==": [1]}), json!({"var": ["nope", {"var": ""}]}),
        json!({"some": [{"var": ""}, true]}), json!({"log": "LEAK"}), json!({"/": [1]}), json!({"var": ""}),
        json!({"if": [true, "exec", "exec"]}), json!({"cat": ["ex", "ec"]}),
    ];
    let mut m = Map::new();
    m.insert("secret".into(), int(42));
    m.insert("x".into(), rng.pick(&markers).clone());
    m.insert("y".into(), rng.pick(&markers).clone());
    m.insert("xs".into(), Value::Array((0..1 + rng.below(3)).map(|_| rng.pick(&markers).clone()).collect()));
    m.insert("n".into(), int(rng.range(0, 5)));
    m.insert("s".into(), s("str"));
    m.insert("dflt".into(), rng.pick(&markers).clone());
    Value::Object(m)
}

fn c04_rule(rng: &mut Rng) -> Value {
    let x = || var(["x", "y", "dflt"][0]);
    let _ = x;
    let pick_ref = |rng: &mut Rng| var(*rng.pick(&["x", "y", "dflt", "xs.0", "xs"]));
    match rng.below(28) {
        0 => op("var", vec![s("nope"), pick_ref(rng)]),
        1 => op("var", vec![s("n"), pick_ref(rng)]),
        2 => op("all", vec![var("xs"), op("!!", vec![var("")])]),
        3 => op("some", vec![var("xs"), op("===", vec![var(""), int(42)])]),
        4 => op("none", vec![var("xs"), op("===", vec![var(""), int(42)])]),
        5 => op("map", vec![var("xs"), var("")]),
        6 => op("filter", vec![var("xs"), json!(true)]),
        7 => op("reduce", vec![var("xs"), var("current"), pick_ref(rng)]),
        8 => op("merge", vec![pick_ref(rng), var("xs")]),
        9 => op("if", vec![pick_ref(rng), pick_ref(rng), pick_ref(rng)]),
        10 => op("and", vec![pick_ref(rng), pick_ref(rng)]),
        11 => op("or", vec![json!(false), pick_ref(rng)]),
        12 => op("all", vec![op("merge", vec![var("xs")]), json!(true)]),
        13 => op("some", vec![op("map", vec![var("xs"), var("")]), var("secret")]),
        14 => op("var", vec![op("var", vec![s("nope"), s("secret")])]),
        15 => op("missing_some", vec![int(rng.range(0, 2)), var("xs")]),
        16 => op("missing", vec![var("xs")]),
        17 => op1("missing", op("merge", vec![var("xs"), s("secret")])),
        18 => op("missing_some", vec![int(1), op("merge", vec![pick_ref(rng), s("n")])]),
        19 => op("var", vec![pick_ref(rng)]),
        20 => op("cat", vec![pick_ref(rng), var("xs")]),
        21 => op("==", vec![pick_ref(rng), pick_ref(rng)]),
        22 => op("max", vec![pick_ref(rng)]),
        23 => op("substr", vec![pick_ref(rng), int(0)]),
        24 => op("log", vec![pick_ref(rng)]),
        25 => op("in", vec![var("secret"), var("xs")]),
        26 => op("in", vec![pick_ref(rng), op("merge", vec![var("xs")])]),
        _ => op("in", vec![pick_ref(rng), var("xs")]),
    }
}

/// adjacent pairs (2i, 2i+1): {k:[a_1..a_n]} on d   vs   {k:[{var:0}..{var:n-1}]} on [apply(a_i, d)]
/// The second member needs the implementation's own results, so it is built by the caller
/// (see main.rs: c04 substitution) from a first pass.
pub fn gen_c04(rng: &mut Rng, count: usize, _thorough: bool) -> Vec<Case> {
    let mut out = Vec::new();
    out.push(apply("regress", json!({"var": ["nope", {"var": "x"}]}), json!({"x": {"var": "secret"}, "secret": 42})));
    out.push(apply("regress", json!({"all": [{"var": "xs"}, {"===": [{"var": ""}, 42]}]}), json!({"xs": [{"var": "secret"}], "secret": 42})));
    out.push(apply("regress", json!({"all": [{"var": ""}, {"===": [{"var": ""}, 7]}]}), json!([{"var": 1}, 7])));
    out.push(apply("regress", json!({"some": [{"var": ""}, {"!==": [{"var": ""}, null]}]}), json!([{"/": [1]}])));
    out.push(apply("regress", json!({"var": [7, {"var": "d"}]}), json!({"d": {"/": [1]}})));
    while out.len() < count {
        let r = if rng.chance(1, 4) {
            let dd = 1 + rng.below(2);
            let leaf = c04_rule(rng);
            nest(rng, dd, leaf)
        } else {
            c04_rule(rng)
        };
        let d = if rng.chance(1, 6) {
            Value::Array((0..1 + rng.below(3)).map(|_| marker_data(rng)["x"].clone()).collect())
        } else {
            marker_data(rng)
        };
        let r = if d.is_array() && rng.chance(1, 2) {
            op(*rng.pick(&["all", "some", "none"]), vec![var(""), op("!==", vec![var(""), Value::Null])])
        } else {
            r
        };
        out.push(apply("marker", r, d));
    }
    out
}

/// operand expressions for the substitution law
pub fn gen_c04_subst(rng: &mut Rng, count: usize) -> Vec<(String, Vec<Value>, Value)> {
    let eager: Vec<&str> = EAGER_OPS.iter().cloned().filter(|o| *o != "log").collect();
    let mut out = Vec::new();
    for _ in 0..count {
        let name = *rng.pick(&eager);
        let n = match name {
            "==" | "!=" | "===" | "!==" | "/" | "%" | "in" => 2,
            "!" | "!!" => 1,
            "<" | "<=" | ">" | ">=" | "substr" => 2 + rng.below(2),
            "-" => 1 + rng.below(2),
            _ => 1 + rng.below(3),
        };
        let d = marker_data(rng);
        let args: Vec<Value> = (0..n)
            .map(|i| {
                if name == "substr" && i > 0 {
                    return int(rng.range(-3, 3));
                }
                match rng.below(6) {
                    0 => var(*rng.pick(&["x", "y", "n", "s", "xs", "secret"])),
                    1 => op("var", vec![s("nope"), var("dflt")]),
                    2 => op("cat", vec![var("s"), var("n")]),
                    3 => op("merge", vec![var("xs")]),
                    4 => rand_scalar(rng),
                    _ => op("+", vec![var("n"), int(1)]),
                }
            })
            .collect();
        out.push((name.to_string(), args, d));
    }
    // an operand is reduced to its value before its neighbours see it: the same operator nested
    // in itself, on operands whose sum or product depends on the grouping
    for (o, a, b, c) in [("+", 0.1, 0.2, 0.3), ("+", 1e308, 1e308, -1e308), ("+", -1e308, 1e308, 1e308), ("*", 1e200, 1e200, 1e-200), ("*", 1e-200, 1e-200, 1e200),
                         ("+", 1e16, 1.0, 1.0), ("+", 9007199254740992.0, 1.0, 1.0), ("*", 0.1, 0.2, 0.3)] {
        out.push((o.to_string(), vec![fl(a), op(o, vec![fl(b), fl(c)])], json!({})));
        out.push((o.to_string(), vec![op(o, vec![fl(a), fl(b)]), fl(c)], json!({})));
        out.push((o.to_string(), vec![fl(a), op(o, vec![fl(b)]), op(o, vec![fl(c), int(0)])], json!({})));
    }
    for (o, xs) in [("max", vec![fl(1.0), fl(2.5)]), ("min", vec![fl(-0.0), int(0)]), ("cat", vec![s("a"), fl(1.0)]), ("merge", vec![json!([1]), json!([[2]])])] {
        out.push((o.to_string(), vec![xs[0].clone(), op(o, vec![xs[1].clone(), xs[0].clone()])], json!({})));
    }
    out
}

fn c05_operand(rng: &mut Rng, depth: usize) -> Value {
    match rng.below(17) {
        14 | 15 => {
            // the corner values of the truthiness table decide here too: as literals ...
            let c = corner_values();
            let v = rng.pick(&c).clone();
            if is_operation(&v) { json!(true) } else { v }
        }
        16 if rng.chance(1, 2) => rng.pick(&[
            // literals that merely contain an operator name among several keys
            json!({"if": [true, "inner-then", "inner-else"], "note": "just data"}), json!({"?:": [true, 1, 2], "k": 0}), json!({"or": [1], "x": 2}),
            json!({"if": [true, {"substr": [1, 2]}, 0], "meta": 1}), json!({"and": [0], "log": "no"}),
        ]).clone(),
        16 => var(&format!("c{}", rng.below(corner_values().len()))), // ... and read from the data
        0 => json!(true),
        1 => json!(false),
        2 => Value::Null,
        3 => int(rng.range(0, 2)),
        4 => s(*rng.pick(&["", "a", "0"])),
        5 => json!([]),
        6 => json!([0]),
        7 => var(*rng.pick(&["t", "f", "z", "e", "nope"])),
        8 => json!({"==": [1]}),                 // poisoned at parse time
        9 => json!({"+": ["a"]}),                // poisoned at run time
        10 => op("log", vec![s(*rng.pick(&["L1", "L2", "L3"]))]),
        11 if depth > 0 => {
            let n = rng.below(4);
            op(*rng.pick(&["if", "?:"]), (0..n).map(|_| c05_operand(rng, depth - 1)).collect())
        }
        12 if depth > 0 => {
            let n = 1 + rng.below(3);
            op(*rng.pick(&["and", "or"]), (0..n).map(|_| c05_operand(rng, depth - 1)).collect())
        }
        _ => op("log", vec![var(*rng.pick(&["t", "f"]))]),
    }
}

pub fn gen_c05(rng: &mut Rng, count: usize, _thorough: bool) -> Vec<Case> {
    let mut data = json!({"t": 1, "f": 0, "z": "", "e": []});
    for (i, c) in corner_values().into_iter().enumerate() {
        data[format!("c{}", i)] = c;
    }
    let mut out = Vec::new();
    out.push(apply("regress", json!({"if": [true, "yes", {"==": [1]}]}), Value::Null));
    out.push(apply("regress", json!({"or": [{"var": "a"}, {"log": "LEAK"}]}), json!({"a": 1})));
    out.push(apply("regress", json!({"and": [0, {"log": "LEAK"}, 5]}), Value::Null));
    for r in [json!({"if": [[0, "a", "b"]]}), json!({"?:": [[false, 1, 2]]}), json!({"or": [[0, 1]]}), json!({"and": [[1, 0]]}), json!({"if": [[]]})] {
        out.push(apply("regress", r, Value::Null));
    }
    for name in ["if", "?:", "and", "or"] {
        for n in 0..=7usize {
            let reps = count / 40 + 1;
            for _ in 0..reps {
                let args: Vec<Value> = (0..n).map(|_| c05_operand(rng, 2)).collect();
                out.push(apply(&format!("{}:{}", name, n), op(name, args), data.clone()));
            }
        }
    }
    out
}

fn corner_values() -> Vec<Value> {
    let mut v = vec![
        json!(false), json!(true), Value::Null, int(0), fl(-0.0), fl(0.0), s(""), json!([]), s("0"), json!([0]), json!([[]]),
        json!({}), json!({"a": 0}), fl(1e-320), fl(5e-324), fl(1e-17), fl(-1e-16), int(1), int(-1), s(" "), s("false"),
        json!([null]), json!([false]), json!([""]), uint(u64::MAX), int(i64::MIN), fl(0.5), s("null"), json!({"var": "a"}),
    ];
    v.dedup();
    v
}

pub fn gen_c06(rng: &mut Rng, count: usize, _thorough: bool) -> Vec<Case> {
    let mut out = Vec::new();
    let mut vals = corner_values();
    for _ in 0..(count / 40) {
        vals.push(rand_value(rng, 2));
    }
    for v in vals.iter() {
        let d = json!({"x": v, "xs": [v], "one": [1]});
        let x = var("x");
        // through var
        out.push(apply("!!/var", op("!!", vec![x.clone()]), d.clone()));
        out.push(apply("!/var", op("!", vec![x.clone()]), d.clone()));
        out.push(apply("if/var", op("if", vec![x.clone(), s("T"), s("F")]), d.clone()));
        out.push(apply("?:/var", op("?:", vec![x.clone(), s("T"), s("F")]), d.clone()));
        out.push(apply("and/var", op("and", vec![x.clone(), s("next")]), d.clone()));
        out.push(apply("or/var", op("or", vec![x.clone(), s("next")]), d.clone()));
        out.push(apply("filter/var", op("filter", vec![var("xs"), var("")]), d.clone()));
        out.push(apply("filter/pred", op("filter", vec![var("one"), x.clone()]), d.clone()));
        out.push(apply("all/var", op("all", vec![var("xs"), var("")]), d.clone()));
        out.push(apply("some/var", op("some", vec![var("xs"), var("")]), d.clone()));
        out.push(apply("none/var", op("none", vec![var("xs"), var("")]), d.clone()));
        // as the whole data
        for pos in ["!!", "!"] {
            out.push(apply(&format!("{}/whole-data", pos), op(pos, vec![var("")]), v.clone()));
        }
        out.push(apply("if/whole-data", op("if", vec![var(""), s("T"), s("F")]), v.clone()));
        out.push(apply("or/whole-data", op("or", vec![op1("var", Value::Null), s("next")]), v.clone()));
        out.push(apply("filter/whole-data", op("filter", vec![json!([1]), var("outer")]), v.clone()));
        // through another operator's result
        let thru = op("if", vec![json!(true), x.clone(), int(1)]);
        out.push(apply("or/result", op("or", vec![thru.clone(), s("next")]), d.clone()));
        out.push(apply("and/result", op("and", vec![thru.clone(), s("next")]), d.clone()));
        out.push(apply("!!/result", op("!!", vec![thru.clone()]), d.clone()));
        out.push(apply("some/result", op("some", vec![op("merge", vec![var("xs")]), var("")]), d.clone()));
        // as a literal (only where the literal is not rule text and not a bare array operand)
        if !is_operation(v) {
            out.push(apply("!!/literal", op("!!", vec![v.clone()]), Value::Null));
            out.push(apply("if/literal", op("if", vec![v.clone(), s("T"), s("F")]), Value::Null));
            out.push(apply("or/literal", op("or", vec![v.clone(), s("next")]), Value::Null));
            out.push(apply("all/literal", op("all", vec![Value::Array(vec![v.clone()]), var("")]), Value::Null));
        }
    }
    // computed zeros and empties
    for (r, tag) in [
        (op("+", vec![int(0)]), "zero"), (op("*", vec![fl(-0.0), int(1)]), "negzero"), (op("cat", vec![]), "emptystr"),
        (op("merge", vec![]), "emptyarr"), (op("-", vec![fl(0.1), fl(0.1)]), "zero"),
        (op("-", vec![op("+", vec![fl(0.1), fl(0.2)]), fl(0.3)]), "tiny"), (op("substr", vec![s("a"), int(1)]), "emptystr"),
        (op("filter", vec![json!([0]), var("")]), "emptyarr"), (op("missing", vec![s("a")]), "nonempty"),
    ] {
        for pos in ["!!", "!"] {
            out.push(apply(&format!("{}/computed-{}", pos, tag), op(pos, vec![r.clone()]), json!({})));
        }
        out.push(apply(&format!("or/computed-{}", tag), op("or", vec![r.clone(), s("next")]), json!({})));
        out.push(apply(&format!("if/computed-{}", tag), op("if", vec![r.clone(), s("T"), s("F")]), json!({})));
    }
    // a condition is judged by the value its expression has - however that value is found
    {
        let d = json!({"word": "hi", "zero": "0", "items": [0, [0]], "tail": [1, 0], "empty": ["", []], "x": 0, "y": [], "z": "a"});
        for cond in [var("word.0"), var("zero.0"), var("items.-1"), var("tail.-1"), var("items.0"), var("empty.-1"), var("empty.0"), var("word.5"), var("items.1.0"),
                     op("var", vec![s("nope"), int(0)]), op("var", vec![s("nope"), s("0")]), op("var", vec![s("word.-1")])] {
            out.push(apply("cond/path", op("if", vec![cond.clone(), s("T"), s("F")]), d.clone()));
            out.push(apply("cond/path", op("if", vec![int(0), s("A"), cond.clone(), s("T"), s("F")]), d.clone()));
            out.push(apply("cond/path", op("?:", vec![cond.clone(), s("T"), s("F")]), d.clone()));
            out.push(apply("cond/path", op("!!", vec![cond.clone()]), d.clone()));
            out.push(apply("cond/path", op("and", vec![cond.clone(), s("next")]), d.clone()));
            out.push(apply("cond/path", op("or", vec![cond.clone(), s("next")]), d.clone()));
            out.push(apply("cond/path", op("filter", vec![json!([1]), op("var", vec![s("nope"), int(0)])]), d.clone()));
        }
        // members of a collection written in the rule are evaluated first, then judged
        for q in ["some", "all", "none", "filter"] {
            for m in [var("x"), var("y"), var("z"), op("if", vec![var("x"), int(10), int(0)]), op("and", vec![int(1), var("y")]), op("map", vec![var("y"), int(1)]), op("+", vec![var("x"), int(0)])] {
                if q != "filter" {
                    out.push(apply("member/written", op(q, vec![Value::Array(vec![m.clone()]), var("")]), d.clone()));
                    out.push(apply("member/written", op(q, vec![Value::Array(vec![m.clone(), int(5)]), op(">", vec![var(""), int(0)])]), d.clone()));
                }
            }
        }
    }
    // !! always returns a boolean, ! its negation - also when the operand is an operation that
    // returns one of its own operands
    for v in corner_values() {
        if is_operation(&v) { continue; }
        for inner in [op("or", vec![int(0), v.clone()]), op("and", vec![int(1), v.clone()]), op("or", vec![v.clone(), v.clone()]), op("if", vec![json!(true), v.clone(), int(1)]),
                      op("?:", vec![json!(false), int(1), v.clone()]), op("max", vec![int(0)]), op("cat", vec![v.clone()]), op("merge", vec![v.clone()]), op("var", vec![s("nope"), v.clone()])] {
            out.push(apply("!!/of-operation", op("!!", vec![inner.clone()]), Value::Null));
            out.push(apply("!/of-operation", op("!", vec![inner]), Value::Null));
        }
    }
    // a predicate that is itself a literal (an array above all): judged as the value it is
    for pred in [json!([0]), json!([]), json!([1, 2]), json!([[]]), json!([false]), json!([{"var": ""}]), json!(""), json!("0"), json!(0.0), json!({}), json!({"a": 1, "b": 2})] {
        for q in ["all", "some", "none", "filter"] {
            out.push(apply(&format!("{}/literal-pred", q), op(q, vec![json!([1, 2]), pred.clone()]), Value::Null));
            out.push(apply(&format!("{}/literal-pred", q), op(q, vec![var("xs"), pred.clone()]), json!({"xs": [0]})));
        }
    }
    // several values at once: each element is judged on its own, whatever its neighbours are
    // (look-alikes side by side: 0 and "0", false and "false", null and "null", [] and "")
    let mut mixed = corner_values();
    mixed.extend([s("0"), s("false"), s("null"), s("true"), s("1"), s("-0"), s("0.0"), s("[]"), s("[object Object]"), int(0), fl(0.0), json!(true)]);
    for _ in 0..(count / 12).max(40) {
        let k = 2 + rng.below(5);
        let xs: Vec<Value> = (0..k).map(|_| rng.pick(&mixed).clone()).collect();
        let d = json!({"xs": xs});
        let pred = if rng.chance(1, 2) { var("") } else { op("!!", vec![var("")]) };
        let o = *rng.pick(&["filter", "all", "some", "none", "map"]);
        let pred = if o == "map" { op("!!", vec![var("")]) } else { pred };
        out.push(apply(&format!("{}/mixed", o), op(o, vec![var("xs"), pred]), d));
    }
    out
}

fn pair_cases(out: &mut Vec<Case>, ops: &[&str], helpers: &[&str], a: &Value, b: &Value) {
    let d = json!({"a": a, "b": b});
    for o in ops {
        out.push(apply(&format!("op:{}", o), op(o, vec![var("a"), var("b")]), d.clone()));
    }
    for h in helpers {
        out.push(helper(&format!("helper:{}", h), h, vec![a.clone(), b.clone()]));
    }
}

fn gen_pairs(rng: &mut Rng, count: usize, thorough: bool, ops: &[&str], helpers: &[&str], extra: &[(Value, Value)]) -> Vec<Case> {
    let mut out = Vec::new();
    for (a, b) in extra {
        pair_cases(&mut out, ops, helpers, a, b);
        pair_cases(&mut out, ops, helpers, b, a);
    }
    let core = core_values();
    let all = values();
    let per = ops.len() + helpers.len();
    if thorough {
        for a in all.iter() {
            for b in all.iter() {
                pair_cases(&mut out, &ops[..1], helpers, a, b);
            }
        }
    } else {
        // a random slice of the core product, then random pairs from the whole corpus
        for a in core.iter() {
            for _ in 0..4 {
                let b = rng.pick(&core).clone();
                pair_cases(&mut out, ops, helpers, a, &b);
            }
        }
    }
    while out.len() < count {
        let a = if rng.chance(1, 4) { rand_value(rng, 2) } else { rng.pick(&all).clone() };
        let b = if rng.chance(1, 4) { rand_value(rng, 2) } else { rng.pick(&all).clone() };
        pair_cases(&mut out, ops, helpers, &a, &b);
        if rng.chance(1, 2) {
            pair_cases(&mut out, ops, helpers, &b, &a);
        }
        if rng.chance(1, 8) {
            // a string and its numeric reading
            let t = rand_string(rng);
            pair_cases(&mut out, ops, helpers, &Value::String(t.clone()), &rand_number(rng));
            pair_cases(&mut out, ops, helpers, &Value::Array(vec![Value::String(t)]), &rand_number(rng));
        }
    }
    let _ = per;
    out
}

/// the conversions themselves, on numeric-looking strings (compared bit for bit)
fn conversion_cases(rng: &mut Rng, n: usize, out: &mut Vec<Case>) {
    for c in ws_edge_chars() {
        for t in [format!("{}1", c), format!("1{}", c), c.to_string()] {
            out.push(helper("convert:ws-edge", "str_to_number", vec![Value::String(t.clone())]));
            out.push(helper("convert:ws-edge", "parse_float", vec![Value::String(t)]));
        }
    }
    for t in grammar_edge_strings() {
        out.push(helper("convert:edge", "str_to_number", vec![Value::String(t.clone())]));
        if t.len() % 3 == 0 {
            out.push(helper("convert:edge", "parse_float", vec![Value::String(t)]));
        }
    }
    for _ in 0..n {
        let t = match rng.below(4) {
            0 => rand_radix_literal(rng),
            1 => rand_long_decimal(rng),
            _ => rand_string(rng),
        };
        let t = if rng.chance(1, 5) { format!("{}{}{}", rng.pick(&[" ", "\t", "\u{a0}", "\u{feff}", "\u{85}", "\n"]), t, rng.pick(&["", " ", "\u{2028}", "\u{85}", "x"])) } else { t };
        let t = if rng.chance(1, 3) {
            // a short seed literal keeps the edit near the interesting positions
            let seed = if rng.chance(1, 2) { rng.pick(&["0x10", "0b11", "0o17", "1.5e3", "-1e-2", "Infinity", "-Infinity", ".5", "5.", "1e5", "+7", "0X1f"]).to_string() } else { t };
            mutate_numeric(rng, &seed)
        } else { t };
        out.push(helper("convert:str_to_number", "str_to_number", vec![Value::String(t.clone())]));
        out.push(helper("convert:to_number", "to_number", vec![Value::Array(vec![Value::String(t.clone())])]));
        out.push(helper("convert:parse_float", "parse_float", vec![Value::String(t)]));
    }
}

pub fn gen_c07(rng: &mut Rng, count: usize, thorough: bool) -> Vec<Case> {
    let extra = vec![
        (s(" 1 "), int(1)), (s("0x10"), int(16)), (s("inf"), fl(f64::MAX)), (s("\u{85}1"), int(1)), (s("\u{85}"), int(0)),
        (int(9007199254740993), int(9007199254740992)), (json!(["\u{85}7"]), int(7)), (s("Infinity"), fl(f64::MAX)),
        (json!(true), s("1")), (json!(false), s("")), (Value::Null, int(0)), (json!([]), s("")), (json!([null]), s("")),
        (json!({}), s("[object Object]")), (json!([1]), int(1)), (json!([[1]]), int(1)), (json!([1, 2]), s("1,2")),
        (fl(1.0), s("1.0")), (fl(1e21), s("1e+21")), (fl(1e21), json!([fl(1e21)])), (json!([fl(0.1)]), s("0.1")),
    ];
    let mut extra = extra;
    extra.extend([(json!([1, []]), int(1)), (json!([1, []]), s("1,")), (json!([[], []]), s(",")), (json!([[], []]), int(0)), (json!([[], []]), json!(false)), (json!([[[]], "x"]), s(",x")),
                  (json!([1, [], 2]), s("1,,2")), (json!([1, [], 2]), s("1,2")), (json!([[]]), s("")), (json!([[]]), int(0)), (json!([null, 1]), s(",1")), (json!([[null]]), s(""))]);
    extra.extend([(Value::Array(vec![fl(-0.0)]), s("-0.0")), (Value::Array(vec![fl(0.0), int(1)]), s("0.0,1")), (Value::Array(vec![fl(0.0)]), s("0")), (Value::Array(vec![fl(-0.0)]), s("0")),
                  (Value::Array(vec![fl(1.0)]), s("1")), (Value::Array(vec![fl(1.0)]), s("1.0")), (Value::Array(vec![int(0)]), s("0.0"))]);
    // a number inside an array meets a string through its JSON text - at every size where that
    // text changes shape
    for f in [1e15, 1e16, 1.5e17, 1e19, 123456789012345680000.0, 9.999999999999999e20, 1e21, 1e22, 1e-4, 1e-5, 1e-6, 1e-7, 1.234e-7, -1.5e20, 12345678901234567.0] {
        let text = serde_json::to_string(&fl(f)).unwrap();
        let plain = format!("{}", f);
        extra.push((Value::Array(vec![fl(f)]), s(&text)));
        extra.push((Value::Array(vec![fl(f)]), s(&plain)));
        extra.push((Value::Array(vec![int(1), fl(f)]), s(&format!("1,{}", text))));
        extra.push((Value::Array(vec![fl(f)]), fl(f)));
    }
    let mut out = gen_pairs(rng, count * 4 / 5, thorough, &["==", "!="], &["abstract_eq", "abstract_ne"], &extra);
    for v in core_values().iter().chain(arrays().iter()).chain(objects().iter()) {
        out.push(helper("same-ref", "abstract_eq_same", vec![v.clone()]));
        out.push(helper("same-ref", "abstract_ne_same", vec![v.clone()]));
    }
    conversion_cases(rng, count / 15, &mut out);
    // a string against the number it denotes (and its neighbours), through == itself
    while out.len() < count {
        let t = if rng.chance(1, 2) { rand_radix_literal(rng) } else { rand_long_decimal(rng) };
        if let Some(f) = jsonlogic_rs::js_op::str_to_number(&t) {
            if f.is_finite() {
                for g in [f, f64::from_bits(f.to_bits().wrapping_add(1)), f64::from_bits(f.to_bits().wrapping_sub(1))] {
                    if g.is_finite() {
                        pair_cases(&mut out, &["=="], &["abstract_eq"], &Value::String(t.clone()), &fl(g));
                    }
                }
            }
        }
    }
    out
}

pub fn gen_c08(rng: &mut Rng, count: usize, thorough: bool) -> Vec<Case> {
    let extra = vec![
        (int(1), fl(1.0)), (int(0), fl(-0.0)), (int(9007199254740993), int(9007199254740992)), (fl(0.30000000000000004), fl(0.3)),
        (fl(1e-300), int(0)), (json!([1, 2]), json!([1, 2])), (json!({}), json!({})), (s("1"), int(1)),
        // the same "value" in two types: never strictly equal
        (Value::Null, json!([])), (Value::Null, json!({})), (json!(false), json!([])), (s(""), json!([])), (int(0), json!([])), (int(0), json!([0])),
        (json!(true), int(1)), (json!(false), int(0)), (json!(true), fl(1.0)), (json!(false), fl(-0.0)), (Value::Null, int(0)), (Value::Null, json!(false)),
        (s(""), int(0)), (s("true"), json!(true)), (s("null"), Value::Null), (json!([]), s("")), (json!([1]), int(1)), (json!({}), s("[object Object]")),
    ];
    let mut out = Vec::new();
    // written in the rule itself (every entry point serialises the rule too)
    for (a, b) in extra.iter() {
        for o in ["===", "!=="] {
            out.push(apply("literal-pair", op(o, vec![a.clone(), b.clone()]), Value::Null));
            out.push(apply("literal-pair", op(o, vec![b.clone(), a.clone()]), Value::Null));
        }
    }
    out.extend(gen_pairs(rng, count, thorough, &["===", "!==", "=="], &["strict_eq", "strict_ne"], &extra));
    // containers reached twice through one field, and whole-data lookups
    for v in [json!([1, 2]), json!({}), json!([]), json!({"a": 1}), s("x"), int(3), Value::Null] {
        let d = json!({"c": v, "rows": [v.clone(), v.clone()]});
        for o in ["===", "!=="] {
            out.push(apply("same-field", op(o, vec![var("c"), var("c")]), d.clone()));
            out.push(apply("whole-data", op(o, vec![var(""), var("")]), v.clone()));
            out.push(apply("whole-data", op(o, vec![op("var", vec![]), op1("var", Value::Null)]), v.clone()));
            out.push(apply("per-element", op("map", vec![var("rows"), op(o, vec![var(""), var("")])]), d.clone()));
            out.push(apply("literal", op(o, vec![v.clone(), v.clone()]), Value::Null));
        }
        out.push(helper("same-ref", "strict_eq_same", vec![v.clone()]));
    }
    out
}

pub fn gen_c09(rng: &mut Rng, count: usize, thorough: bool) -> Vec<Case> {
    let extra = vec![
        (Value::Null, int(0)), (json!([1]), json!([1])), (json!({}), json!({})), (Value::Null, json!(false)),
        (json!([10]), json!([9])), (json!([10]), s("9")), (json!([5]), s("abc")), (int(1), s("abc")), (Value::Null, s("x")),
        (int(5), json!({})), (int(0), json!([1, 2])), (s("a"), s("B")), (s("é"), s("z")), (s("10"), s("9")), (s("10"), int(9)),
        (s(" 1 "), int(1)), (s("inf"), int(1)), (s("Infinity"), int(1)), (s("0x10"), int(15)), (s("日本"), s("😀")),
        (s("\u{ffff}"), s("\u{10000}")),
    ];
    let mut out = gen_pairs(
        rng, count * 3 / 4, thorough, &["<", "<=", ">", ">="],
        &["abstract_lt", "abstract_lte", "abstract_gt", "abstract_gte"], &extra,
    );
    let all = values();
    let core = core_values();
    // adjacent operands are compared pair by pair: two strings as text even when the third is a number
    let mix = [s("10"), s("9"), int(10), int(9), fl(9.5), s("1"), s(" 1"), Value::Null, json!(true), json!([" 1"]), s("abc"), json!([10]), s("2")];
    for a in mix.iter() {
        for b in mix.iter() {
            let c = rng.pick(&mix).clone();
            let o = *rng.pick(&["<", "<=", ">", ">="]);
            out.push(apply(&format!("between-mix:{}", o), op(o, vec![a.clone(), b.clone(), c]), Value::Null));
        }
    }
    while out.len() < count {
        let pool = if rng.chance(1, 2) { &core } else { &all };
        let (a, b, c) = (rng.pick(pool).clone(), rng.pick(pool).clone(), rng.pick(pool).clone());
        let d = json!({"a": a, "b": b, "c": c});
        for o in ["<", "<=", ">", ">="] {
            out.push(apply(&format!("between:{}", o), op(o, vec![var("a"), var("b"), var("c")]), d.clone()));
        }
    }
    for v in core.iter() {
        for h in ["abstract_lt_same", "abstract_gt_same", "abstract_lte_same", "abstract_gte_same"] {
            out.push(helper("same-ref", h, vec![v.clone()]));
        }
    }
    out.push(apply("regress", json!({"<": [[10], [9], [91]]}), Value::Null));
    out.push(apply("regress", json!({">=": [3, 2, "low"]}), Value::Null));
    conversion_cases(rng, count / 20, &mut out);
    out
}

fn numeric_operand(rng: &mut Rng) -> Value {
    match rng.below(12) {
        0..=4 => rand_number(rng),
        5..=6 => Value::String(rand_string(rng)),
        7 => Value::Array(vec![rand_number(rng)]),
        8 => Value::Array(vec![Value::String(rand_string(rng))]),
        9 => rng.pick(&scalars()).clone(),
        10 => rng.pick(&arrays()).clone(),
        _ => rng.pick(&values()).clone(),
    }
}

pub fn gen_c10(rng: &mut Rng, count: usize, _thorough: bool) -> Vec<Case> {
    let mut out = Vec::new();
    let regress: Vec<(&str, Vec<Value>)> = vec![
        ("+", vec![fl(1e19), int(0)]), ("*", vec![fl(1e10), fl(1e10)]), ("+", vec![uint(u64::MAX), int(0)]),
        ("+", vec![int(i64::MAX), int(1)]), ("*", vec![int(4294967296), int(4294967296)]), ("+", vec![s("1-2")]),
        ("+", vec![s("1e+")]), ("+", vec![s("1e5.5")]), ("max", vec![s("nan"), int(1)]), ("+", vec![s("5.e3")]),
        ("*", vec![s("2.E2"), int(3)]), ("*", vec![json!(["-1.e-1px"]), int(10)]), ("+", vec![s("1.e400")]),
        ("-", vec![s("5."), int(1)]), ("/", vec![s("5.e3"), int(2)]), ("%", vec![int(7), s(" 4. ")]),
        ("max", vec![int(1), s("2."), json!(["3.E0"])]), ("%", vec![int(i64::MIN), int(-1)]), ("-", vec![int(i64::MIN), int(0)]),
        ("-", vec![int(i64::MIN), int(1025)]), ("+", vec![fl(0.1), fl(0.2)]), ("*", vec![fl(-0.0), int(1)]),
        ("-", vec![s("-0")]), ("-", vec![int(0)]), ("/", vec![int(1), int(0)]), ("%", vec![int(1), int(0)]),
        ("/", vec![int(0), fl(-1.0)]), ("%", vec![fl(-5.5), int(2)]), ("%", vec![fl(5.5), int(-2)]), ("%", vec![fl(1e300), fl(7.0)]),
        ("%", vec![fl(5e-324), fl(3e-324)]), ("+", vec![fl(f64::MAX), fl(f64::MAX)]), ("*", vec![fl(1e-320), fl(1e-10)]),
        ("+", vec![s("Infinity")]), ("-", vec![s("Infinity"), int(1)]), ("min", vec![]), ("+", vec![]), ("*", vec![]),
        ("%", vec![int(9007199254740993), int(2)]), ("%", vec![uint(u64::MAX), int(10)]), ("%", vec![int(i64::MAX), int(i64::MAX - 1)]), ("%", vec![int(1234567890123456789), int(1000)]),
        ("max", vec![s("10"), s("9")]), ("min", vec![s("10"), s("9")]), ("max", vec![json!([10]), json!([9])]), ("max", vec![s("-1"), s("-2")]), ("max", vec![fl(2.0), int(1)]), ("min", vec![fl(1e2), int(250), s("300")]),
        ("+", vec![s("12px"), json!([3])]), ("-", vec![json!([]), json!(true)]), ("+", vec![json!(true)]), ("max", vec![json!([[2]]), int(1)]),
    ];
    for (o, a) in regress {
        out.push(apply(&format!("regress:{}", o), op(o, a), Value::Null));
    }
    conversion_cases(rng, count / 20, &mut out);
    let ops = ["+", "-", "*", "/", "%", "min", "max"];
    while out.len() < count {
        let o = *rng.pick(&ops);
        let n = match o {
            "/" | "%" => 2,
            "-" => 1 + rng.below(2),
            _ => rng.below(6),
        };
        let args: Vec<Value> = (0..n).map(|_| numeric_operand(rng)).collect();
        let via_var = rng.chance(1, 3);
        if via_var {
            let refs: Vec<Value> = (0..n).map(|i| op("var", vec![int(i as i64)])).collect();
            out.push(apply(&format!("var:{}", o), op(o, refs), Value::Array(args)));
        } else {
            // literal operands: objects that look like operations would be executed, so keep them out
            let args: Vec<Value> = args.into_iter().map(|a| if is_operation(&a) { json!({}) } else { a }).collect();
            out.push(apply(&format!("lit:{}", o), op(o, args), Value::Null));
        }
    }
    out
}

fn rand_tree(rng: &mut Rng, depth: usize) -> Value {
    if depth == 0 {
        return match rng.below(5) {
            0 => Value::Null,
            1 => Value::String(rand_string(rng)),
            2 => s(*rng.pick(&["héllo", "日本語", "abc", "", "😀😀"])),
            _ => rand_scalar(rng),
        };
    }
    match rng.below(5) {
        0 => rand_tree(rng, 0),
        1 | 2 => Value::Array((0..rng.below(4)).map(|_| rand_tree(rng, depth - 1)).collect()),
        _ => {
            let mut m = Map::new();
            for _ in 0..1 + rng.below(4) {
                m.insert(rand_key(rng), rand_tree(rng, depth - 1));
            }
            Value::Object(m)
        }
    }
}

fn escape_seg(k: &str) -> String {
    k.replace('\\', "\\\\").replace('.', "\\.")
}

/// a path into `d` that mostly exists, as (path text, steps taken)
fn rand_path(rng: &mut Rng, d: &Value) -> String {
    let mut segs: Vec<String> = Vec::new();
    let mut cur = d;
    for _ in 0..rng.below(5) {
        match cur {
            Value::Object(m) if !m.is_empty() => {
                let keys: Vec<&String> = m.keys().collect();
                let k = *rng.pick(&keys);
                segs.push(escape_seg(k));
                cur = &m[k.as_str()];
            }
            Value::Array(a) if !a.is_empty() => {
                let i = rng.below(a.len());
                if rng.chance(1, 3) {
                    segs.push(format!("{}", i as i64 - a.len() as i64));
                } else {
                    segs.push(format!("{}", i));
                }
                cur = &a[i];
            }
            Value::String(t) if !t.is_empty() => {
                let n = t.chars().count();
                let i = rng.below(n);
                segs.push(if rng.chance(1, 2) { format!("{}", i as i64 - n as i64) } else { format!("{}", i) });
                break;
            }
            _ => break,
        }
    }
    // perturbations: a miss, an out-of-range index, odd spellings
    match rng.below(10) {
        0 => segs.push("nope".into()),
        1 => segs.push(format!("{}", rng.range(-6, 6))),
        2 => segs.push(rng.pick(&["+1", "-0", "01", "1.0", " 1", "1e0", "9223372036854775808", "-9223372036854775808"]).to_string()),
        3 => {
            if !segs.is_empty() {
                let i = rng.below(segs.len());
                segs[i] = rand_key(rng);
            }
        }
        _ => {}
    }
    let mut p = segs.join(".");
    match rng.below(12) {
        0 => p.push('.'),
        1 => p.push('\\'),
        2 => p.insert(0, '.'),
        3 => p.insert(0, '\\'),
        _ => {}
    }
    p
}

pub fn gen_c11(rng: &mut Rng, count: usize, _thorough: bool) -> Vec<Case> {
    let mut out = Vec::new();
    let regress = vec![
        (json!({"var": -1}), s("héllo")), (json!({"var": -5}), s("héllo")), (json!({"var": "user.name.-1"}), json!({"user": {"name": "Zoë"}})),
        (json!({"var": "x\\\\y"}), json!({"x\\y": 7, "xy": "wrong"})), (json!({"var": "\\xy"}), json!({"xy": 1, "\\xy": "wrong"})),
        (json!({"var": "\\1"}), json!(["a", "b"])), (json!({"var": ["a", 5]}), json!({"a": null})), (json!({"var": "a.b"}), json!({"a.b": 1, "a": {"b": 2}})),
        (json!({"var": "a\\.b"}), json!({"a.b": 1, "a": {"b": 2}})), (json!({"var": 1}), json!({"1": "one"})), (json!({"var": "1"}), json!(["a", "b"])),
        (json!({"var": []}), json!({"a": 1})), (json!({"var": null}), json!([1])), (json!({"var": ""}), s("x")), (json!({"var": ["", 5]}), json!(7)),
        (json!({"var": [null, 5]}), json!(7)), (json!({"var": "a."}), json!({"a": 1})), (json!({"var": ".a"}), json!({"a": 1, "": {"a": 2}})),
        (json!({"var": "a..b"}), json!({"a": {"": {"b": 3}}})), (json!({"var": 1.5}), json!([1, 2])), (json!({"var": [[1]]}), json!([1, 2])),
        (json!({"var": true}), json!([1, 2])), (json!({"var": "a"}), json!(5)), (json!({"var": 0}), json!(5)), (json!({"var": "0"}), s("日本")),
    ];
    for (r, d) in regress {
        out.push(apply("regress", r, d));
    }
    for (p, d) in [
        ("name.0.length", json!({"name": "Zoë"})), ("a.0.5", json!({"a": "xyz"})), ("a.0.0", json!({"a": "xyz"})), ("a.0.-1.0", json!({"a": "xyz"})), ("-1.1", s("héllo")),
        ("1.2.-2", json!(["ab", "cde"])), ("1.2.0.0.1", json!(["ab", "cde"])), ("user.name", json!({"user": {"name": "nested"}, "user.name": "flat"})),
        ("a.b", json!({"a": {"c": 1}, "a.b": "unrelated"})), ("x\\y", json!({"xy": 1, "x\\y": 2})), ("", json!({"": "member", "other": 1})), ("a.", json!({"a.": 1, "a": {"": 2}})),
        ("0", json!({"0": "zero"})), ("01", json!(["a", "b"])), ("-0", json!(["a", "b"])), ("1e0", json!(["a", "b"])), (" 1", json!(["a", "b"])), ("+1", json!(["a", "b"])),
    ] {
        for dflt in [None, Some(s("dflt"))] {
            let mut args = vec![s(p)];
            if let Some(x) = dflt { args.push(x); }
            out.push(apply("path-edge", op("var", args), d.clone()));
        }
        out.push(apply("path-edge", op("missing", vec![s(p)]), d.clone()));
    }
    while out.len() < count {
        let dd = 1 + rng.below(4);
        let d = rand_tree(rng, dd);
        let p = rand_path(rng, &d);
        let key: Value = match rng.below(10) {
            0 => int(rng.range(-5, 5)),
            1 => rng.pick(&[int(i64::MIN), int(i64::MAX), uint(u64::MAX), fl(1.0), fl(1.5), Value::Null, s("")]).clone(),
            2 => op("cat", vec![s(&p)]),               // computed key
            3 => op("var", vec![s("nope"), s(&p)]),    // computed via a default
            _ => s(&p),
        };
        let with_default = rng.chance(1, 2);
        let args = if with_default {
            vec![key.clone(), if rng.chance(1, 3) { json!({"var": "secret"}) } else { s("DEFAULT") }]
        } else {
            vec![key.clone()]
        };
        let tag = format!("{}{}", match &key { Value::String(_) => "path", Value::Number(_) => "int", Value::Object(_) => "computed", _ => "other" },
            if with_default { "+default" } else { "" });
        out.push(apply(&tag, op("var", args.clone()), d.clone()));
        // frame: perturb a part of the data off the path (append an unrelated key / element)
        if rng.chance(1, 4) {
            let d2 = match &d {
                Value::Object(m) => {
                    let mut m = m.clone();
                    m.insert("zzz_unrelated".into(), rand_value(rng, 1));
                    Value::Object(m)
                }
                other => other.clone(),
            };
            out.push(apply("frame", op("var", args), d2));
        }
    }
    out
}

pub fn gen_c12(rng: &mut Rng, count: usize, _thorough: bool) -> Vec<Case> {
    let mut out = Vec::new();
    let regress = vec![
        (json!({"missing_some": [1, ["a", "a"]]}), json!({})), (json!({"missing_some": [2, ["a", "b", "a"]]}), json!({"b": 1})),
        (json!({"missing": [["a", "b"], "c"]}), json!({"a": 1, "c": null})), (json!({"missing": ["name.-1"]}), json!({"name": "héllo"})),
        (json!({"missing": ["name.-6"]}), json!({"name": "héllo"})), (json!({"missing": [-1, -3, -4]}), s("日本語")),
        (json!({"missing_some": [1, ["name.-1", "age"]]}), json!({"name": "héllo"})), (json!({"missing": ["a", null, "b"]}), json!({"a": null})),
        (json!({"missing": {"merge": [["a"], "b"]}}), json!({"b": ""})), (json!({"missing": []}), json!({})), (json!({"missing": [[]]}), json!({})),
        (json!({"missing": "a"}), json!({"a": []})), (json!({"missing_some": [0, []]}), json!({})), (json!({"missing_some": [1, []]}), json!({})),
        (json!({"missing_some": [1, [null]]}), json!({})), (json!({"missing_some": [1.5, ["a"]]}), json!({})), (json!({"missing_some": [-1, ["a"]]}), json!({})),
        (json!({"missing_some": [1, "a"]}), json!({})), (json!({"missing": [1.5]}), json!([1])), (json!({"missing": [true]}), json!([1])),
        (json!({"missing_some": [1, ["a", 1.5]]}), json!({"a": 1})), (json!({"missing_some": [2, ["a", 1.5]]}), json!({"a": 1})),
        (json!({"missing": ["a.0.0", "a.0.-1", "a.0.1", "a.3", "a.0.0.0.0"]}), json!({"a": "xyz"})), (json!({"missing_some": [1, ["q", "a.0.-1"]]}), json!({"a": "xyz"})),
        (json!({"missing": ["1.0", "1.1", "0.0.0"]}), s("hey")), (json!({"missing": ["a", "", null, 0]}), json!(5)), (json!({"missing": [""]}), Value::Null),
        (json!({"missing_some": [1, ["address", "address2"]]}), json!({"address2": "Flat 3", "city": "Leeds"})), (json!({"missing_some": [3, ["address", "address2", "city"]]}), json!({"address2": "x", "city": "y"})),
        (json!({"missing_some": [1, ["a.b", "a.bc"]]}), json!({"a": {"bc": 1}})), (json!({"missing_some": [1, ["13", "130"]]}), json!({"130": 1})), (json!({"missing": ["address", "address2", "addr"]}), json!({"address2": 1})),
        (json!({"missing": ["items.-1", "items.5", "items.-4"]}), json!({"items": [10, 20, 30]})), (json!({"missing_some": [1, ["items.-1", "total"]]}), json!({"items": [10, 20, 30]})),
        (json!({"missing_some": [1, ["", "a"]]}), json!({})), (json!({"missing_some": [2, ["a", "", "b"]]}), json!({"b": 1})), (json!({"missing": ["user.name", "a.b"]}), json!({"user.name": 1, "a": {"b": 2}})),
    ];
    for (r, d) in regress {
        out.push(apply("regress", r, d));
    }
    while out.len() < count {
        let dd = 1 + rng.below(3);
        let d = rand_tree(rng, dd);
        let n = rng.below(6);
        let mut keys: Vec<Value> = Vec::new();
        for _ in 0..n {
            let k = match rng.below(10) {
                0 => Value::Null,
                1 => int(rng.range(-4, 4)),
                2 if !keys.is_empty() => rng.pick(&keys).clone(),
                _ => Value::String(rand_path(rng, &d)),
            };
            keys.push(k);
        }
        let form = rng.below(5);
        let rule = match form {
            0 => op("missing", keys.clone()),
            1 => op("missing", vec![Value::Array(keys.clone())]),
            2 => op1("missing", op("merge", vec![Value::Array(keys.clone())])),
            _ => op("missing_some", vec![int(rng.range(0, n as i64 + 1)), if rng.chance(1, 4) { op("merge", vec![Value::Array(keys.clone())]) } else { Value::Array(keys.clone()) }]),
        };
        out.push(apply(if form < 3 { "missing" } else { "missing_some" }, rule, d.clone()));
        // cross-check against var with a sentinel default on the same data
        if let Some(k) = keys.first() {
            out.push(apply("var-sentinel", op("var", vec![k.clone(), s("\u{1}SENTINEL")]), d));
        }
    }
    out
}

/// a lookup inside the element: every spelling of a key (text, integer, integer as text,
/// negative, dotted, bracketed, with a default) - the element is the whole data in there
fn elem_var(rng: &mut Rng) -> Value {
    match rng.below(12) {
        0 => var("0"),
        1 => var("1"),
        2 => var("-1"),
        3 => op("var", vec![s("1")]),
        4 => op("var", vec![int(0)]),
        5 => op("var", vec![int(-1)]),
        6 => var("a.b"),
        7 => op("var", vec![s("a"), s("dflt")]),
        8 => op("var", vec![s("2"), int(7)]),
        9 => var("b"),
        10 => op("var", vec![s("-2")]),
        _ => var("0.a"),
    }
}

fn elem_expr(rng: &mut Rng, depth: usize) -> Value {
    if rng.chance(1, 6) {
        return elem_var(rng);
    }
    match rng.below(14) {
        0 => var(""),
        1 => op("+", vec![var(""), int(1)]),
        2 => op("cat", vec![var(""), s("!")]),
        3 => op("!!", vec![var("")]),
        4 => op(">", vec![var(""), int(1)]),
        5 => var("outer"),                       // outer data must not be visible
        6 => var("a"),
        7 => op("missing", vec![s("a")]),
        8 => rand_scalar(rng),
        9 if depth > 0 => op("map", vec![var(""), elem_expr(rng, depth - 1)]),
        10 if depth > 0 => op("filter", vec![var(""), elem_expr(rng, depth - 1)]),
        11 if depth > 0 => op("reduce", vec![var(""), step_expr(rng), int(0)]),
        12 => op("in", vec![s("a"), var("")]),
        _ => op("===", vec![var(""), int(2)]),
    }
}

fn step_expr(rng: &mut Rng) -> Value {
    match rng.below(8) {
        0 => op("+", vec![var("current"), var("accumulator")]),
        1 => op("cat", vec![var("accumulator"), var("current")]),
        2 => op("-", vec![var("accumulator"), var("current")]),
        3 => op("merge", vec![var("accumulator"), var("current")]),
        4 => var("current"),
        5 => var("accumulator"),
        6 => op("cat", vec![var("accumulator"), var("outer"), var("current")]),
        _ => var(""),
    }
}

fn collection(rng: &mut Rng) -> (Value, Value) {
    // (collection expression, outer data)
    let elems: Vec<Value> = (0..rng.below(5))
        .map(|_| match rng.below(6) {
            0 => rng.pick(&[json!({"a": 1}), json!({"a": {"b": 7}}), json!({"a": null, "b": 0}), json!({"0": "zero", "1": "one"})]).clone(),
            1 => json!({"b": 2}),
            2 => Value::Array((0..rng.below(4)).map(|_| if rng.chance(1, 4) { json!({"a": 5}) } else { int(rng.range(0, 3)) }).collect()),
            3 => Value::String(rand_string(rng)),
            4 => json!({"var": "outer"}),
            _ => rand_scalar(rng),
        })
        .collect();
    let outer = json!({"outer": "OUT", "a": "outer-a", "xs": elems, "nul": null, "str": "abc", "num": 5, "obj": {"a": 1}});
    let coll = match rng.below(10) {
        0 => var("nul"),
        1 => Value::Null,
        2 => var(*rng.pick(&["str", "num", "obj", "nope"])),
        3 => rng.pick(&[s("abc"), int(5), json!(true), json!({"a": 1})]).clone(),
        4 | 5 => Value::Array(outer["xs"].as_array().unwrap().iter().map(|e| if is_operation(e) { json!(0) } else { e.clone() }).collect()),
        6 => op("merge", vec![var("xs"), var("xs")]),
        _ => var("xs"),
    };
    (coll, outer)
}

pub fn gen_c13(rng: &mut Rng, count: usize, _thorough: bool) -> Vec<Case> {
    let mut out = Vec::new();
    let regress = vec![
        (json!({"filter": [{"var": "rows"}, {"missing": ["a"]}]}), json!({"rows": [{"a": 1}, {"b": 2}, {"a": 3, "b": 4}, {}]})),
        (json!({"filter": [{"var": "rows"}, {"missing": ["a"]}]}), json!({"a": 1, "rows": [{"b": 1}, {"b": 2}]})),
        (json!({"reduce": [{"var": "vals"}, {"+": [{"var": "current"}, {"var": "accumulator"}]}, {"var": "init"}]}), json!({"vals": [], "init": 5})),
        (json!({"reduce": [{"var": "nope"}, {"var": "current"}, {"+": [{"var": "base"}, 1]}]}), json!({"base": 41})),
        (json!({"reduce": [[1, 2, 3], {"-": [{"var": "accumulator"}, {"var": "current"}]}, 10]}), Value::Null),
        (json!({"map": [[], {"==": [1]}]}), Value::Null), (json!({"filter": [null, {"==": [1]}]}), Value::Null),
        (json!({"reduce": [[1], {"var": ""}, 0]}), Value::Null), (json!({"map": [{"var": "xs"}, {"var": "outer"}]}), json!({"xs": [1, {"outer": 2}], "outer": 9})),
    ];
    for (r, d) in regress {
        out.push(apply("regress", r, d));
    }
    // filter keeps exactly the elements whose predicate value is truthy: every corner of the table
    {
        let corners: Vec<Value> = corner_values();
        out.push(apply("corner-filter", op("filter", vec![var("xs"), var("")]), json!({"xs": corners.clone()})));
        out.push(apply("corner-filter", op("filter", vec![var("xs"), op("!!", vec![var("")])]), json!({"xs": corners.clone()})));
        out.push(apply("corner-filter", op("map", vec![var("xs"), op("!", vec![var("")])]), json!({"xs": corners.clone()})));
        for v in corners.iter() {
            out.push(apply("corner-filter", op("filter", vec![json!([1, 2]), var("v")]), json!({"v": v})));
            out.push(apply("corner-filter", op("reduce", vec![var("xs"), op("if", vec![var("current"), op("+", vec![var("accumulator"), int(1)]), var("accumulator")]), int(0)]), json!({"xs": [v.clone(), 1, v.clone()]})));
        }
    }
    while out.len() < count {
        let (coll, outer) = collection(rng);
        match rng.below(3) {
            0 => out.push(apply("map", op("map", vec![coll, elem_expr(rng, 2)]), outer)),
            1 => out.push(apply("filter", op("filter", vec![coll, elem_expr(rng, 2)]), outer)),
            _ => {
                let init = match rng.below(6) {
                    4 => Value::Null,
                    5 => var("nope"),
                    0 => var("num"),
                    1 => op("+", vec![var("num"), int(1)]),
                    2 => s(""),
                    _ => int(0),
                };
                out.push(apply("reduce", op("reduce", vec![coll, step_expr(rng), init]), outer))
            }
        }
    }
    out
}

pub fn gen_c14(rng: &mut Rng, count: usize, _thorough: bool) -> Vec<Case> {
    let mut out = Vec::new();
    let regress = vec![
        (json!({"some": [{"var": "items"}, {">": [{"var": ""}, 0]}]}), json!({"other": [1, 2, 3]})),
        (json!({"none": [{"var": "items"}, {">": [{"var": ""}, 0]}]}), json!({"other": [1, 2, 3]})),
        (json!({"all": [{"var": "items"}, {"in": ["a", {"var": ""}]}]}), json!({"items": ["xyz", 5]})),
        (json!({"all": [[{"var": "a"}, 2], {"===": [{"var": ""}, 2]}]}), json!({"a": 2})),
        (json!({"some": ["héllo", {"===": [{"var": ""}, "é"]}]}), Value::Null), (json!({"all": ["", true]}), Value::Null),
        (json!({"all": [[], true]}), Value::Null), (json!({"none": [[], true]}), Value::Null), (json!({"all": [null, true]}), Value::Null),
        (json!({"all": [5, true]}), Value::Null), (json!({"some": [{"a": 1, "b": 2}, true]}), Value::Null), (json!({"all": [[1, {"==": [1]}], false]}), Value::Null),
        (json!({"some": [[1, {"==": [1]}], true]}), Value::Null), (json!({"all": [[0, 1], {"log": {"var": ""}}]}), Value::Null),
        (json!({"some": [[0, 1, 2], {"log": {"var": ""}}]}), Value::Null),
        (json!({"some": [[0, {"in": ["a", 7]}, {"log": "after-error"}], {"var": ""}]}), Value::Null), (json!({"none": [[0, {"in": ["a", 7]}, {"log": "after-error"}], {"var": ""}]}), Value::Null),
        (json!({"some": [{"var": "xs"}, {"in": ["a", {"log": {"var": ""}}]}]}), json!({"xs": ["", 7, "a", {}]})), (json!({"all": [{"var": "xs"}, {"in": ["a", {"log": {"var": ""}}]}]}), json!({"xs": ["a", 7, "b"]})),
        (json!({"all": [[1, 2], [0]]}), Value::Null), (json!({"all": [[1, 2], []]}), Value::Null), (json!({"all": [[1, 2], [1, 2]]}), Value::Null), (json!({"all": [{"var": "xs"}, [false]]}), json!({"xs": [1]})),
        (json!({"none": [{"var": "xs"}, {">": [{"var": ""}, 0]}]}), json!({"xs": 0})), (json!({"all": [{"var": "xs"}, true]}), json!({"xs": false})), (json!({"some": [{"-": [1, 1]}, true]}), Value::Null),
    ];
    for (r, d) in regress {
        out.push(apply("regress", r, d));
    }
    // members written as expressions are evaluated against the outer data - whatever operator they use
    {
        let d = json!({"vip": true, "no": false, "xs": [1, 2], "n": 3});
        for q in ["all", "some", "none"] {
            for m in [op("if", vec![var("vip"), int(10), int(0)]), op("if", vec![var("no"), int(1), int(0)]), op("?:", vec![var("vip"), int(0), int(1)]), op("and", vec![var("vip"), var("n")]),
                      op("or", vec![var("no"), int(0)]), op("map", vec![var("xs"), int(0)]), op("filter", vec![var("xs"), json!(false)]), op("reduce", vec![var("xs"), op("+", vec![var("current"), var("accumulator")]), int(0)]),
                      op("some", vec![var("xs"), json!(true)]), op("none", vec![var("xs"), json!(true)]), op("missing", vec![s("n")]), op("cat", vec![s("")])] {
                out.push(apply("written-member", op(q, vec![Value::Array(vec![m.clone(), int(5)]), op("!!", vec![var("")])]), d.clone()));
                out.push(apply("written-member", op(q, vec![Value::Array(vec![m.clone()]), var("")]), d.clone()));
            }
        }
    }
    // every corner of the truthiness table decides a one-element collection on its own
    for v in corner_values() {
        for q in ["all", "some", "none"] {
            out.push(apply("corner-element", op(q, vec![var("xs"), var("")]), json!({"xs": [v.clone()]})));
            out.push(apply("corner-element", op(q, vec![var("xs"), op("!!", vec![var("")])]), json!({"xs": [1, v.clone(), 1]})));
            if !is_operation(&v) {
                out.push(apply("corner-element", op(q, vec![Value::Array(vec![v.clone()]), var("")]), Value::Null));
                out.push(apply("corner-result", op(q, vec![json!([1, 2]), v.clone()]), Value::Null));
            }
        }
    }
    for q in ["all", "some", "none"] {
        for (path, d) in [
            ("a.b", json!({"a": {"b": [1, 2]}, "a.b": [-1, -2]})), ("", json!({"": [1, 2], "x": 1})), ("", json!([1, 0])), ("a\\.b", json!({"a": {"b": [1]}, "a.b": [0]})),
            ("0", json!([[1, 2], [0]])), ("xs.1", json!({"xs": [[0], [1, 2]], "xs.1": [0]})), ("-1", json!([[0], [3]])), ("k.", json!({"k": [1], "k.": [0]})),
        ] {
            out.push(apply("path-collection", op(q, vec![var(path), op(">", vec![var(""), int(0)])]), d.clone()));
            out.push(apply("path-collection", op(q, vec![op("merge", vec![var(path)]), op(">", vec![var(""), int(0)])]), d));
        }
    }
    while out.len() < count {
        if rng.chance(1, 5) {
            // the collection is found by a path into a random tree
            let d = rand_tree(rng, 3);
            let p = rand_path(rng, &d);
            let q = *rng.pick(&["all", "some", "none"]);
            out.push(apply("tree-collection", op(q, vec![var(&p), op("!!", vec![var("")])]), d));
            continue;
        }
        let (coll, outer) = collection(rng);
        let coll = match rng.below(8) {
            0 => s(*rng.pick(&["abc", "héllo", "日本語", "", "a😀b", "aaa"])),
            1 => var("str"),
            2 => Value::Array((0..1 + rng.below(4)).map(|_| match rng.below(4) {
                0 => var("num"),
                1 => op("+", vec![var("num"), int(-5)]),
                2 => var("nope"),
                _ => int(rng.range(0, 3)),
            }).collect()),
            _ => coll,
        };
        let pred = match rng.below(10) {
            0 => json!(true),
            1 => json!(false),
            2 => op("===", vec![var(""), s("a")]),
            3 => op("log", vec![var("")]),                          // shows which elements were visited
            4 => op("if", vec![var(""), json!({"==": [1]}), json!(false)]),   // error once a truthy element is seen
            5 => op("in", vec![s("a"), var("")]),                   // errors on non-string non-array elements
            6 => var("outer"),
            7 => op("!", vec![var("")]),
            _ => elem_expr(rng, 1),
        };
        let q = *rng.pick(&["all", "some", "none"]);
        out.push(apply(q, op(q, vec![coll, pred]), outer));
    }
    out
}

pub fn gen_c15(rng: &mut Rng, count: usize, _thorough: bool) -> Vec<Case> {
    let mut out = Vec::new();
    let regress = vec![
        json!({"in": [2.0, [1, 2, 3]]}), json!({"in": [0, [-0.0]]}), json!({"in": [1, [1.0]]}), json!({"in": [[1.0, {"a": 2}], [[1, {"a": 2.0}]]]}),
        json!({"in": [{"a": 1, "b": 2}, [{"b": 2, "a": 1.0}]]}), json!({"in": [{"a": 1}, [{"a": 1, "b": 2}]]}), json!({"in": ["1", [1]]}),
        json!({"in": [1e-17, [0, 1]]}), json!({"in": [{"+": [0.1, 0.2]}, [0.3]]}), json!({"in": [1e-20, [2e-20, 3e-20]]}), json!({"in": [{"a": [1e-18]}, [{"a": [0]}]]}),
        json!({"merge": [[1, [2, 3]]]}), json!({"merge": [[[1], [2]]]}), json!({"merge": [[[]]]}),
        json!({"merge": [1, null, [2]]}), json!({"merge": null}), json!({"merge": [[1, [2]], [[3]]]}), json!({"merge": []}), json!({"merge": [[]]}),
        json!({"in": ["é", "héllo"]}), json!({"in": ["", "abc"]}), json!({"in": ["abc", ""]}), json!({"in": [1, "123"]}), json!({"in": ["a", null]}),
        json!({"in": ["a", 5]}), json!({"in": ["a", {"a": 1}]}), json!({"in": [null, [null]]}), json!({"in": [[], [[]]]}), json!({"in": [[1], [[1, 2]]]}),
        json!({"in": [9007199254740993u64, [9007199254740992u64]]}), json!({"in": ["ab", "aab"]}), json!({"in": ["😀", "a😀b"]}),
    ];
    for r in regress {
        out.push(apply("regress", r, Value::Null));
    }
    for (n, h) in [(uint(u64::MAX), json!([9223372036854775808u64])), (uint(10000000000000000000), json!([1, 12000000000000000000u64])), (uint(u64::MAX), json!([18446744073709551615u64])),
                   (uint(u64::MAX), Value::Array(vec![fl(18446744073709551616.0)])), (int(9007199254740993), json!([9007199254740992u64])), (json!({"k": [18446744073709551615u64]}), json!([{"k": [9223372036854775808u64]}]))] {
        out.push(apply("big-integers", op("in", vec![var("n"), var("h")]), json!({"n": n, "h": h})));
    }
    // a haystack written in the rule is a literal: members that look like operations are members
    for (r, d) in [
        (json!({"in": [5, [{"var": "q"}]]}), json!({"q": 5})), (json!({"in": [{"var": "n"}, [7, {"var": "q"}]]}), json!({"n": {"var": "q"}, "q": 5})),
        (json!({"in": [2, [1, {"in": [1, 2]}]]}), Value::Null), (json!({"in": [{"var": "n"}, [{"+": [1, 2]}, {"==": [1]}]]}), json!({"n": {"==": [1]}})),
        (json!({"in": [3, [{"+": [1, 2]}]]}), Value::Null), (json!({"in": [{"var": "n"}, {"var": "h"}]}), json!({"n": {"var": "x"}, "h": [{"var": "x"}], "x": 1})),
        (json!({"merge": [[{"var": "a"}], {"var": "a"}]}), json!({"a": [1]})),
    ] {
        out.push(apply("literal-haystack", r, d));
    }
    let vals = values();
    while out.len() < count {
        if rng.chance(1, 3) {
            let n = rng.below(5);
            let args: Vec<Value> = (0..n).map(|_| match rng.below(4) {
                0 => Value::Array((0..rng.below(3)).map(|_| rand_value(rng, 1)).collect()),
                1 => Value::Null,
                _ => rng.pick(&vals).clone(),
            }).collect();
            if rng.chance(1, 2) {
                // written in the rule: one level is spliced, whatever the operand count (a single
                // array operand included) and however deep the operand nests
                let lits: Vec<Value> = args.iter().map(|a| match a {
                    Value::Array(xs) if rng.chance(1, 2) => {
                        let mut ys = xs.clone();
                        ys.push(Value::Array((0..rng.below(3)).map(|_| rand_value(rng, 1)).collect()));
                        Value::Array(ys)
                    }
                    a if is_operation(a) => int(0),
                    a => a.clone(),
                }).collect();
                out.push(apply("merge-literal", op("merge", lits), Value::Null));
                continue;
            }
            let refs: Vec<Value> = (0..n).map(|i| op("var", vec![int(i as i64)])).collect();
            out.push(apply("merge", op("merge", refs), Value::Array(args)));
        } else {
            let needle = if rng.chance(1, 2) { rng.pick(&vals).clone() } else { rand_value(rng, 2) };
            let hay = match rng.below(8) {
                0 => Value::Null,
                1 => Value::String(rand_string(rng)),
                2 => {
                    // a string haystack containing the needle's text
                    let t = match &needle { Value::String(t) => t.clone(), _ => "x".into() };
                    Value::String(format!("{}{}{}", rand_string(rng), t, rand_string(rng)))
                }
                3 => rng.pick(&vals).clone(),
                _ => {
                    let mut items: Vec<Value> = (0..rng.below(4)).map(|_| if rng.chance(1, 2) { rng.pick(&vals).clone() } else { rand_value(rng, 2) }).collect();
                    if rng.chance(1, 2) {
                        // insert a respelled copy of the needle
                        items.push(respell(rng, &needle));
                    }
                    Value::Array(items)
                }
            };
            out.push(apply("in", op("in", vec![var("n"), var("h")]), json!({"n": needle, "h": hay})));
        }
    }
    out
}

/// the same value with numbers spelled differently and object keys inserted in another order
fn respell(rng: &mut Rng, v: &Value) -> Value {
    match v {
        Value::Number(n) => {
            let f = n.as_f64().unwrap();
            if n.is_f64() {
                if f.fract() == 0.0 && f.abs() < 9e15 && rng.chance(1, 2) { int(f as i64) } else { v.clone() }
            } else if rng.chance(1, 2) && f.is_finite() {
                fl(f)
            } else {
                v.clone()
            }
        }
        Value::Array(a) => Value::Array(a.iter().map(|x| respell(rng, x)).collect()),
        Value::Object(m) => Value::Object(m.iter().rev().map(|(k, x)| (k.clone(), respell(rng, x))).collect()),
        _ => v.clone(),
    }
}

pub fn gen_c16(rng: &mut Rng, count: usize, thorough: bool) -> Vec<Case> {
    let mut out = Vec::new();
    let regress = vec![
        json!({"substr": ["é", -1]}), json!({"substr": ["héllo", 0, -1]}), json!({"substr": ["héé", -2]}), json!({"substr": ["日本語", -1]}),
        json!({"substr": ["😀😀", 0, -1]}), json!({"cat": ["Hello, ", {"var": "name"}]}), json!({"cat": [null]}), json!({"cat": ["a", null, "b"]}),
        json!({"cat": [[null, 1], {}, true, 1.5, 1e21, -0.0, [[1, [2]]]]}), json!({"cat": []}), json!({"cat": "x"}), json!({"substr": ["abc", 1.5]}),
        json!({"cat": [["a", "b"]]}), json!({"cat": [[["a"], "b"]]}), json!({"cat": ["ab", []]}), json!({"cat": ["ab", [], "c"]}), json!({"cat": [[1, [], 2]]}),
        json!({"substr": [123, 1]}), json!({"substr": ["abc", "1"]}), json!({"substr": ["abc", 1, 1.5]}), json!({"substr": ["abc", 18446744073709551615u64]}),
    ];
    for r in regress {
        out.push(apply("regress", r, json!({})));
    }
    let strs = ["", "a", "abc", "héllo", "日本語", "😀😀", "a😀é日", "abcdefgh", "é", "ß€𝄞"];
    let idx: Vec<i64> = {
        let mut v: Vec<i64> = (-10..=10).collect();
        v.extend([i64::MIN, i64::MIN + 1, i64::MAX, i64::MAX - 1]);
        v
    };
    if thorough {
        for t in strs.iter() {
            for i in idx.iter() {
                out.push(apply("substr2", op("substr", vec![s(t), int(*i)]), Value::Null));
                for l in idx.iter() {
                    out.push(apply("substr3", op("substr", vec![s(t), int(*i), int(*l)]), Value::Null));
                }
            }
        }
    }
    let vals = values();
    while out.len() < count {
        match rng.below(4) {
            3 => {
                // the string form itself (also evaluated by the ECMAScript oracle)
                let v = if rng.chance(1, 2) { rng.pick(&vals).clone() } else { rand_value(rng, 3) };
                out.push(helper("string-form", "to_string", vec![v]));
            }
            0 => {
                let n = rng.below(6);
                let args: Vec<Value> = (0..n).map(|_| if rng.chance(1, 2) { rng.pick(&vals).clone() } else { rand_value(rng, 2) }).collect();
                let refs: Vec<Value> = (0..n).map(|i| op("var", vec![int(i as i64)])).collect();
                out.push(apply("cat", op("cat", refs), Value::Array(args)));
            }
            _ => {
                let t = if rng.chance(2, 3) { rng.pick(&strs).to_string() } else { rand_string(rng) };
                let i = *rng.pick(&idx);
                if rng.chance(1, 2) {
                    out.push(apply("substr2", op("substr", vec![s(&t), int(i)]), Value::Null));
                } else {
                    out.push(apply("substr3", op("substr", vec![s(&t), int(i), int(*rng.pick(&idx))]), Value::Null));
                }
            }
        }
    }
    out
}

/// C17: a pool of calls; histories and thread runs are assembled in main.rs
pub fn gen_c17_pool(rng: &mut Rng, n: usize) -> Vec<(Value, Value)> {
    let mut pool = Vec::new();
    // strings on which Number() and parseFloat() disagree, shared data, repeated failing calls
    let d1 = json!({"mask": "0x10", "width": "12px", "x": "abc", "temp": 100, "b": "0b11"});
    for r in [
        json!({"==": [{"var": "mask"}, 16]}), json!({"+": [{"var": "mask"}, 1]}), json!({"*": [{"var": "width"}, 2]}), json!({"<": [{"var": "width"}, 20]}),
        json!({"-": ["0b11", 1]}), json!({"+": ["0b11", "1e3x"]}), json!({"+": [{"var": "x"}, 1]}), json!({"if": [{"<": [{"var": "temp"}, 110]}, "ok", "too hot"]}),
        json!({"and": [true, {"==": [1]}]}), json!({"-": ["abc", 1]}),
    ] {
        pool.push((r, d1.clone()));
    }
    // results that list or count several things: any per-call randomness (hashing, allocation
    // order) or leftover state would show as a different order or content from call to call
    let d2 = json!({"a": 1, "e": 5, "rows": [{"k": "x", "v": 1}, {"k": "y", "v": 2}, {"k": "x", "v": 3}], "tags": ["t3", "t1", "t2", "t1"],
                    "obj": {"z": 1, "y": 2, "x": 3, "w": 4, "v": 5, "u": 6, "t": 7, "s": 8}});
    for r in [
        json!({"missing_some": [4, ["b", "c", "d", "b"]]}), json!({"missing_some": [3, ["z", "y", "a", "x", "y", "w", "z"]]}),
        json!({"missing": ["q", "p", "a", "o", "n", "m", "e", "l", "k", "q"]}), json!({"missing": [["h", "g", "f", "e", "d", "c", "b", "a"]]}),
        json!({"merge": [{"var": "tags"}, {"var": "tags"}, ["t0"]]}), json!({"filter": [{"var": "rows"}, {"===": [{"var": "k"}, "x"]}]}),
        json!({"map": [{"var": "rows"}, {"var": "k"}]}), json!({"var": "obj"}), json!({"cat": [{"var": "tags"}, {"var": "obj"}]}),
        json!({"in": [{"w": 4, "x": 3}, [{"x": 3, "w": 4}]]}), json!({"reduce": [{"var": "tags"}, {"cat": [{"var": "accumulator"}, {"var": "current"}]}, ""]}),
        json!({"filter": [[0, "0", false, "false", null, "null", [], ""], {"var": ""}]}), json!({"all": [{"var": "tags"}, {"in": ["t", {"var": ""}]}]}),
    ] {
        pool.push((r, d2.clone()));
    }
    // a deep failing rule
    let mut deep = json!({"-": ["abc", 1]});
    for _ in 0..50 {
        deep = op("!", vec![deep]);
    }
    pool.push((deep, Value::Null));
    // rules deeper than any text interface delivers (built as values): too-deep or failing
    // evaluations must not leave anything behind for the next call
    for (levels, leaf) in [(140usize, json!(1)), (140, json!({"-": ["abc", 1]})), (127, json!(1)), (200, json!({"var": "temp"}))] {
        let mut r = leaf;
        for _ in 0..levels {
            r = op("+", vec![r, int(0)]);
        }
        pool.push((r, d1.clone()));
    }
    while pool.len() < n {
        let dd = 1 + rng.below(3);
        let mut r = rand_rule(rng, dd);
        strip_log(&mut r);
        pool.push((norm(&r), norm(&rand_data(rng))));
    }
    pool
}

/// C17 through the other entry points: one interpreter serves every call of a run, so anything
/// a wrapper keeps between calls is seen by the later ones.  Look-alike top-level values
/// (1, true, 1.0; 0, false, 0.0, -0.0; "", [], {} and null) in shuffled order, twice, and the
/// pool's own calls repeated.
pub fn gen_c17_plain(rng: &mut Rng, count: usize) -> Vec<Case> {
    let rules = vec![
        var(""), op("cat", vec![var("")]), op("===", vec![var(""), int(1)]), op("!!", vec![var("")]), op("+", vec![var(""), int(1)]),
        op("===", vec![var(""), json!(true)]), op("if", vec![var(""), s("T"), s("F")]), op("merge", vec![var(""), json!([1])]),
        op("===", vec![var(""), int(0)]), op("in", vec![var(""), json!([1, true, "1", 0, false, ""])]),
    ];
    let datas = vec![
        int(1), json!(true), fl(1.0), int(0), json!(false), fl(0.0), fl(-0.0), s(""), s("1"), json!([]), json!([1]), json!({}), Value::Null, int(2), fl(2.0),
        s("true"), json!([true]), uint(u64::MAX), int(-1), s("0"),
    ];
    let mut out = Vec::new();
    let pool = gen_c17_pool(rng, 40);
    while out.len() < count {
        let mut order: Vec<usize> = (0..datas.len()).collect();
        for i in (1..order.len()).rev() {
            order.swap(i, rng.below(i + 1));
        }
        let r = rng.pick(&rules).clone();
        for i in order.iter() {
            out.push(apply("lookalike", r.clone(), datas[*i].clone()));
        }
        for _ in 0..6 {
            let (pr, pd) = rng.pick(&pool).clone();
            if json_depth(&pr) < 100 {
                out.push(apply("pool", pr.clone(), pd.clone()));
                out.push(apply("pool-again", pr, pd));
            }
        }
    }
    out.truncate(count);
    out
}

/// replace `log` by `!!` (thread runs cannot attribute log lines)
pub fn strip_log(v: &mut Value) {
    match v {
        Value::Array(a) => a.iter_mut().for_each(strip_log),
        Value::Object(m) => {
            if m.len() == 1 && m.contains_key("log") {
                let inner = m.remove("log").unwrap();
                m.insert("!!".into(), inner);
            }
            m.values_mut().for_each(strip_log);
        }
        _ => {}
    }
}
