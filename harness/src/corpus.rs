//! Shared boundary corpus and random value generators.
use crate::prng::Rng;
use serde_json::{json, Map, Number, Value};

pub fn fl(f: f64) -> Value {
    Value::Number(Number::from_f64(f).expect("finite"))
}
pub fn int(i: i64) -> Value {
    json!(i)
}
pub fn uint(u: u64) -> Value {
    json!(u)
}
pub fn s(x: &str) -> Value {
    Value::String(x.to_string())
}
pub fn obj(pairs: Vec<(&str, Value)>) -> Value {
    let mut m = Map::new();
    for (k, v) in pairs {
        m.insert(k.to_string(), v);
    }
    Value::Object(m)
}
pub fn op(name: &str, args: Vec<Value>) -> Value {
    obj(vec![(name, Value::Array(args))])
}
pub fn op1(name: &str, arg: Value) -> Value {
    obj(vec![(name, arg)])
}
pub fn var(path: &str) -> Value {
    op1("var", s(path))
}

pub const EAGER_OPS: &[&str] = &[
    "==", "!=", "===", "!==", "!", "!!", "<", "<=", ">", ">=", "+", "-", "*", "/", "%", "max", "min",
    "merge", "in", "cat", "substr", "log",
];
pub const DATA_OPS: &[&str] = &["var", "missing", "missing_some"];
pub const LAZY_OPS: &[&str] = &["if", "?:", "or", "and", "map", "filter", "reduce", "all", "some", "none"];

pub fn all_ops() -> Vec<&'static str> {
    let mut v: Vec<&'static str> = Vec::new();
    v.extend_from_slice(EAGER_OPS);
    v.extend_from_slice(DATA_OPS);
    v.extend_from_slice(LAZY_OPS);
    v
}

/// documented operand counts
pub fn documented(opn: &str, n: usize) -> bool {
    match opn {
        "==" | "!=" | "===" | "!==" | "/" | "%" | "in" | "map" | "filter" | "all" | "some" | "none"
        | "missing_some" => n == 2,
        "<" | "<=" | ">" | ">=" | "substr" => n == 2 || n == 3,
        "reduce" => n == 3,
        "!" | "!!" | "log" => n == 1,
        "-" => n == 1 || n == 2,
        "var" => n <= 2,
        "*" | "max" | "min" | "and" | "or" => n >= 1,
        "+" | "cat" | "merge" | "missing" | "if" | "?:" => true,
        _ => false,
    }
}

pub fn numbers() -> Vec<Value> {
    let mut v = vec![
        int(0), fl(-0.0), fl(0.0), int(1), int(-1), fl(1.0), fl(-1.0), fl(0.5), fl(-0.5), fl(0.1), fl(0.2), fl(0.3),
        int(2), int(3), int(10), int(16), int(100), fl(1.5), fl(2.5), fl(1e-7), fl(1e-6), fl(1e-5), fl(1e15), fl(1e16),
        fl(1e21), fl(1e300), fl(-1e300), fl(f64::MAX), fl(-f64::MAX), fl(f64::MIN_POSITIVE), fl(5e-324),
        fl(1e-320), fl(1e-17), fl(-1e-16), fl(1.7976931348623157e308), fl(1.5e308),
        int(9007199254740991), int(9007199254740992), int(9007199254740993), int(-9007199254740993),
        int(i64::MAX), int(i64::MAX - 1), int(i64::MIN), int(i64::MIN + 1), uint(1u64 << 63), uint((1u64 << 63) + 1),
        uint(u64::MAX), uint(u64::MAX - 1), fl(9223372036854775808.0), fl(-9223372036854775808.0),
        fl(18446744073709551616.0), fl(1e19), fl(1e10), fl(4294967296.0), int(4294967296), fl(-9223372036854777856.0),
        fl(123456.789), fl(0.30000000000000004), fl(4.35), fl(8.41e21), fl(2.2250738585072014e-308), int(7), int(-7),
        int(255), fl(3.0), fl(1e2), int(42),
        // around the places where number text changes shape (plain digits / exponent form)
        fl(1e17), fl(1.5e17), fl(123456789012345680000.0), fl(9.999999999999999e20), fl(1e20), fl(12345678901234567.0), fl(9999999999999998.0),
        fl(1e-4), fl(0.00001234), fl(1.234e-7), fl(1e22),
    ];
    v.dedup();
    v
}

pub fn strings() -> Vec<&'static str> {
    vec![
        "", "0", "1", "-1", " 1 ", "\t1\n", "1.0", "-0", "+0", "1e3", "1E3", ".5", "5.", ".", "e5", "1e", "1e+", "1-2",
        "1e5.5", "12px", "0x10", "0X1f", "0b11", "0B2", "0o17", "0o8", "0x", "+0x10", "-0x10", "Infinity", "-Infinity",
        "+Infinity", "infinity", "inf", "-inf", "nan", "NaN", "Infinityx", "1_0", "\u{a0}1\u{a0}", "\u{feff}2", "\u{85}3",
        "\u{2028}4\u{2029}", "\u{3000}5", "\u{1680}6", "\u{200b}7", "a", "b", "A", "abc", "[object Object]", "1,2", "true",
        "false", "null", "é", "日本", "😀", "héllo", "10", "9", "2", "1.5", "1.", "5.e3", "2.E2", "-.5", "+.5e-2",
        "1e400", "-1e400", "1e-400", "123456789012345678901234567890", "0.1", "0.30000000000000004", "9007199254740993",
        "0xfffffffffffffffff", "0x20000000000001", "0b1111111111111111111111111111111111111111111111111111111", "00",
        "1e16", "1e+16", "10000000000000000", "1.5e17", "150000000000000000", "1,1e16", "1,10000000000000000", "123456789012345680000", "1.2345678901234568e20",
        "1e-7", "0.0000001", "1e19", "10000000000000000000", "1e21", "1e+21",
        "007", "1 2", "--1", "+-1", "1e1e1", "1..2", ".e3", "٣", "１", " ", "\n", "x1", "1x", "1,", ",",
        "-", "+", "var", "==", "a.b", "a\\.b", "0.0", "-0.0", "1e21", "1e-7",
    ]
}

pub fn arrays() -> Vec<Value> {
    vec![
        json!([]), json!([0]), json!([1]), json!([[]]), json!([null]), json!([null, null]), json!([1, 2]),
        json!(["a", "b"]), json!([[1, 2], [3]]), json!([{}]), json!(["1"]), json!([1.5]), json!([" 2 "]), json!([10]),
        json!([9]), json!([true]), json!([[1]]), json!([null, 1]), json!(["0x10"]), json!([1, [2, [3]]]),
        Value::Array(vec![fl(-0.0)]), Value::Array(vec![fl(1.0)]), json!(["a"]), json!([[], []]), json!([false]),
        Value::Array(vec![fl(1e21)]), json!(["Infinity"]), json!([1, []]), json!([[], "a", []]), json!([[[]], "x"]), json!([1, [], 2]), json!([1, 2, 3]),
        json!([true, false]), json!([[1, 5]]), json!(["3px", 5]), Value::Array(vec![fl(1e16)]), Value::Array(vec![fl(1.5e17)]), Value::Array(vec![int(1), fl(1e16)]),
        Value::Array(vec![fl(123456789012345680000.0)]), Value::Array(vec![fl(1e-7)]), Value::Array(vec![fl(1e19)]), Value::Array(vec![fl(-1.5e20)]),
    ]
}

pub fn objects() -> Vec<Value> {
    vec![
        json!({}), json!({"a": 1}), json!({"a": {"b": null}}), json!({"a": 0}), json!({"a": 1, "b": 2}),
        json!({"var": "secret"}), json!({"+": ["x"]}), json!({"==": [1]}), json!({"a.b": 1, "a": {"b": 2}}),
        json!({"": 1}), json!({"é": 1}), json!({"0": "zero", "1": "one", "-1": "minus"}),
    ]
}

pub fn scalars() -> Vec<Value> {
    vec![Value::Null, json!(true), json!(false)]
}

/// the whole corpus, with a coarse type label
pub fn values() -> Vec<Value> {
    let mut v = scalars();
    v.extend(numbers());
    v.extend(strings().into_iter().map(s));
    v.extend(arrays());
    v.extend(objects());
    v
}

/// a small core used for exhaustive products in the quick tier
pub fn core_values() -> Vec<Value> {
    vec![
        Value::Null, json!(true), json!(false), int(0), fl(-0.0), int(1), fl(1.0), int(-1), fl(1.5), int(2), int(10),
        int(9), s(""), s("0"), s("1"), s(" 1 "), s("a"), s("b"), s("abc"), s("10"), s("9"), s("1.5"), s("0x10"),
        s("Infinity"), s("inf"), s("[object Object]"), s("1,2"), s("true"), s("null"), s("é"), json!([]), json!([0]),
        json!([1]), json!([1, 2]), json!([null]), json!(["a"]), json!([[]]), json!([10]), json!([9]), json!({}),
        json!({"a": 1}), int(i64::MAX), uint(u64::MAX), int(9007199254740993), fl(1e21), fl(5e-324),
    ]
}

const CHAR_POOL: &[char] = &[
    'a', 'b', 'z', 'A', '0', '1', '9', ' ', '.', '\\', '-', '+', 'e', 'x', ',', '"', '\n', '\t', 'é', 'ü', 'ß', '\u{a0}',
    '€', '日', '本', '語', '\u{2028}', '\u{feff}', '\u{85}', '😀', '𝄞', '\u{10ffff}', '\u{7f}', '\u{0}',
];

/// a radix literal with up to ~130 significant bits, often shaped like a rounding tie
/// A radix literal built around the rounding position of a double: 53 kept bits (the last one
/// decides even/odd), the half bit, and a tail that is all zeros, a single late one, a one
/// followed by zero digits, or random - every way the dropped part can or cannot break a tie.
pub fn rand_rounding_radix(rng: &mut Rng) -> String {
    let (prefix, width) = *rng.pick(&[("0x", 4usize), ("0X", 4), ("0o", 3), ("0b", 1), ("0B", 1)]);
    let mut bits: Vec<u8> = vec![1];
    for _ in 0..52 {
        bits.push(rng.below(2) as u8);
    }
    if rng.chance(1, 2) {
        let n = bits.len();
        bits[n - 1] = rng.below(2) as u8;
        for b in bits[1..n - 1].iter_mut() {
            if rng.chance(2, 3) { *b = 0; }
        }
    }
    bits.push(if rng.chance(3, 4) { 1 } else { 0 });          // the half bit
    let tail = rng.below(90);
    let mut t = vec![0u8; tail];
    match rng.below(5) {
        0 => {}
        1 if tail > 0 => t[rng.below(tail)] = 1,
        2 if tail > 0 => t[0] = 1,
        3 if tail > 0 => {
            let k = rng.below(tail);
            t[k] = 1;                                            // non-zero, then zero digits to the end
        }
        _ => {
            for b in t.iter_mut() { *b = rng.below(2) as u8; }
            if tail > width { for b in t[tail - width..].iter_mut() { *b = 0; } }
        }
    }
    bits.extend(t);
    while bits.len() % width != 0 {
        bits.insert(0, 0);
    }
    let mut out = String::from(prefix);
    for d in bits.chunks(width) {
        let v = d.iter().fold(0u32, |a, b| a * 2 + *b as u32);
        out.push(std::char::from_digit(v, 16).unwrap());
    }
    out
}

pub fn rand_radix_literal(rng: &mut Rng) -> String {
    if rng.chance(1, 3) {
        return rand_rounding_radix(rng);
    }
    let (prefix, radix) = *rng.pick(&[("0x", 16u32), ("0X", 16), ("0o", 8), ("0O", 8), ("0b", 2), ("0B", 2)]);
    let digit = |rng: &mut Rng, radix: u32| std::char::from_digit(rng.below(radix as usize) as u32, radix).unwrap();
    let mut t = String::from(prefix);
    let ndigits = match radix { 16 => 1 + rng.below(34), 8 => 1 + rng.below(45), _ => 1 + rng.below(130) };
    match rng.below(4) {
        0 => {
            // 1, zeros, then a short tail: half-way cases for round-to-nearest-even
            t.push('1');
            for _ in 0..ndigits {
                t.push('0');
            }
            for _ in 0..1 + rng.below(3) {
                t.push(digit(rng, radix));
            }
        }
        1 => {
            for _ in 0..ndigits {
                t.push(std::char::from_digit(radix - 1, radix).unwrap());
            }
        }
        _ => {
            for _ in 0..ndigits {
                t.push(digit(rng, radix));
            }
        }
    }
    if rng.chance(1, 10) {
        t.push(*rng.pick(&['g', '8', '2', ' ', '.']));
    }
    if rng.chance(1, 4) {
        t = t.to_uppercase().replace("0X", "0x").replace("0O", "0o").replace("0B", "0b");
    }
    t
}

/// a decimal literal with many digits / extreme exponents
/// One random edit of a numeric-looking string: a character from a small alphabet of signs,
/// separators, exponent / radix letters and white space inserted, a character deleted,
/// doubled, or its case flipped.  Most results are NOT numeric literals any more - the
/// scanners must say so.
pub fn mutate_numeric(rng: &mut Rng, t: &str) -> String {
    let mut cs: Vec<char> = t.chars().collect();
    let junk = ['+', '-', '.', '_', 'e', 'E', 'x', 'X', 'o', 'b', '0', '1', '9', ' ', '\u{85}', '\u{a0}', ',', 'I', 'n', 'f'];
    let pos = if cs.is_empty() { 0 } else { rng.below(cs.len() + 1) };
    match rng.below(5) {
        0 | 1 => cs.insert(pos, *rng.pick(&junk)),
        2 if !cs.is_empty() => {
            cs.remove(pos.min(cs.len() - 1));
        }
        3 if !cs.is_empty() => {
            let c = cs[pos.min(cs.len() - 1)];
            cs.insert(pos.min(cs.len() - 1), c);
        }
        _ if !cs.is_empty() => {
            let i = pos.min(cs.len() - 1);
            cs[i] = if cs[i].is_ascii_lowercase() { cs[i].to_ascii_uppercase() } else { cs[i].to_ascii_lowercase() };
        }
        _ => cs.push(*rng.pick(&junk)),
    }
    cs.into_iter().collect()
}

/// The code points at and just beyond every boundary of the white-space table: the ECMA-262
/// table (known here) and the table in the source under test (JLH_TABLES, written by the
/// translator).  Any one-entry difference between two tables lies at one of these.
pub fn ws_edge_chars() -> Vec<char> {
    let mut ranges: Vec<(u32, u32)> = vec![
        (9, 13), (32, 32), (160, 160), (5760, 5760), (8192, 8202), (8232, 8233), (8239, 8239), (8287, 8287), (12288, 12288), (65279, 65279),
        // Unicode White_Space and look-alikes that are not ECMAScript white space
        (0x85, 0x85), (0x180e, 0x180e), (0x200b, 0x200d), (0x2060, 0x2060), (0x1c, 0x1f),
    ];
    if let Ok(path) = std::env::var("JLH_TABLES") {
        if let Ok(text) = std::fs::read_to_string(path) {
            if let Ok(v) = serde_json::from_str::<serde_json::Value>(&text) {
                for r in v["js_ws_ranges"].as_array().cloned().unwrap_or_default() {
                    if let (Some(lo), Some(hi)) = (r[0].as_u64(), r[1].as_u64()) {
                        ranges.push((lo as u32, hi as u32));
                    }
                }
            }
        }
    }
    let mut out = std::collections::BTreeSet::new();
    for (lo, hi) in ranges {
        for c in [lo.saturating_sub(1), lo, hi, hi + 1] {
            if let Some(ch) = char::from_u32(c) {
                if c != 0 {
                    out.insert(ch);
                }
            }
        }
    }
    out.into_iter().collect()
}

/// Every single-character insertion of a sign, separator, exponent or radix letter, digit or
/// blank into a few short literals: the edges of the StringNumericLiteral grammar, enumerated.
pub fn grammar_edge_strings() -> Vec<String> {
    let seeds = ["0x10", "0b11", "0o17", "1e5", "Infinity", ".5", "5.", "-1"];
    let junk = ['+', '-', '.', '_', 'e', 'x', ' ', '0', 'I'];
    let mut out = Vec::new();
    for t in seeds {
        let cs: Vec<char> = t.chars().collect();
        for pos in 0..=cs.len() {
            for j in junk {
                let mut o: String = cs[..pos].iter().collect();
                o.push(j);
                o.extend(cs[pos..].iter());
                out.push(o);
            }
        }
        for pos in 0..cs.len() {
            let mut o: String = cs[..pos].iter().collect();
            o.extend(cs[pos + 1..].iter());
            out.push(o);
        }
    }
    out
}

pub fn rand_long_decimal(rng: &mut Rng) -> String {
    let mut t = String::new();
    if rng.chance(1, 3) {
        t.push(*rng.pick(&['-', '+']));
    }
    for _ in 0..rng.below(40) {
        t.push((b'0' + rng.below(10) as u8) as char);
    }
    if rng.chance(1, 2) {
        t.push('.');
        for _ in 0..rng.below(40) {
            t.push((b'0' + rng.below(10) as u8) as char);
        }
    }
    if rng.chance(1, 2) {
        t.push(*rng.pick(&['e', 'E']));
        if rng.chance(1, 2) {
            t.push(*rng.pick(&['-', '+']));
        }
        let lim = *rng.pick(&[5usize, 40, 330, 400, 100000]);
        t.push_str(&format!("{}", rng.below(lim)));
    }
    t
}

pub fn rand_string(rng: &mut Rng) -> String {
    match rng.below(12) {
        10 => {
            let t = rand_radix_literal(rng);
            if rng.chance(1, 4) { mutate_numeric(rng, &t) } else { t }
        }
        11 => {
            let t = rand_long_decimal(rng);
            if rng.chance(1, 4) { mutate_numeric(rng, &t) } else { t }
        }
        0..=2 => rng.pick(&strings()).to_string(),
        3..=4 => {
            // numeric-looking
            let mut t = String::new();
            if rng.chance(1, 3) {
                t.push(*rng.pick(&[' ', '\t', '\u{a0}', '\u{feff}']));
            }
            if rng.chance(1, 3) {
                t.push(*rng.pick(&['-', '+']));
            }
            for _ in 0..rng.below(4) {
                t.push((b'0' + rng.below(10) as u8) as char);
            }
            if rng.chance(1, 2) {
                t.push('.');
                for _ in 0..rng.below(4) {
                    t.push((b'0' + rng.below(10) as u8) as char);
                }
            }
            if rng.chance(1, 3) {
                t.push(*rng.pick(&['e', 'E']));
                if rng.chance(1, 2) {
                    t.push(*rng.pick(&['-', '+']));
                }
                for _ in 0..rng.below(4) {
                    t.push((b'0' + rng.below(10) as u8) as char);
                }
            }
            if rng.chance(1, 4) {
                t.push(*rng.pick(&[' ', 'x', 'p', '\n', ',']));
            }
            t
        }
        _ => {
            let n = rng.below(9);
            (0..n).map(|_| *rng.pick(CHAR_POOL)).collect()
        }
    }
}

pub fn rand_f64(rng: &mut Rng) -> f64 {
    loop {
        let f = match rng.below(6) {
            0 => f64::from_bits(rng.next()),
            1 => (rng.range(-1000, 1000) as f64) / (*rng.pick(&[1.0, 2.0, 4.0, 10.0, 100.0, 3.0])),
            2 => (rng.next() >> rng.below(64)) as f64,
            3 => {
                let e = rng.range(-330, 308) as i32;
                (rng.range(1, 999) as f64) * 10f64.powi(e)
            }
            4 => -((rng.next() >> rng.below(64)) as f64),
            _ => (rng.range(-20, 20) as f64),
        };
        if f.is_finite() {
            return f;
        }
    }
}

pub fn rand_number(rng: &mut Rng) -> Value {
    match rng.below(8) {
        0..=2 => rng.pick(&numbers()).clone(),
        3 => int(rng.range(-20, 20)),
        4 => int(rng.next() as i64),
        5 => uint(rng.next()),
        _ => fl(rand_f64(rng)),
    }
}

pub fn rand_scalar(rng: &mut Rng) -> Value {
    match rng.below(8) {
        0 => Value::Null,
        1 => json!(true),
        2 => json!(false),
        3..=4 => rand_number(rng),
        _ => Value::String(rand_string(rng)),
    }
}

pub fn rand_key(rng: &mut Rng) -> String {
    const KEYS: &[&str] = &[
        "a", "b", "c", "x", "y", "", "0", "1", "-1", "a.b", "a\\b", "é", "var", "+", "secret", "xs", "current",
        "accumulator", "k.1", "日本",
    ];
    if rng.chance(4, 5) {
        rng.pick(KEYS).to_string()
    } else {
        rand_string(rng)
    }
}

/// any JSON value; may contain operation-shaped objects (it is used as data)
pub fn rand_value(rng: &mut Rng, depth: usize) -> Value {
    if depth == 0 {
        return rand_scalar(rng);
    }
    match rng.below(10) {
        0..=4 => rand_scalar(rng),
        5 => rng.pick(&values()).clone(),
        6..=7 => {
            let n = rng.below(4);
            Value::Array((0..n).map(|_| rand_value(rng, depth - 1)).collect())
        }
        _ => {
            let n = rng.below(4);
            let mut m = Map::new();
            for _ in 0..n {
                m.insert(rand_key(rng), rand_value(rng, depth - 1));
            }
            Value::Object(m)
        }
    }
}

/// a value that is certainly not an operation: used as a rule literal
pub fn is_operation(v: &Value) -> bool {
    match v {
        Value::Object(m) if m.len() == 1 => all_ops().contains(&m.keys().next().unwrap().as_str()),
        _ => false,
    }
}

/// Values travel to the child in an exact encoding, so no normalisation is needed.
pub fn norm(v: &Value) -> Value {
    v.clone()
}
