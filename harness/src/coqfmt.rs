//! Printing serde_json Values as Gallina terms of JL.Base.Json.value.
use serde_json::{Number, Value};
use std::fmt::Write;

pub fn f64_term(f: f64) -> String {
    let bits = f.to_bits();
    let sign = (bits >> 63) != 0;
    let exp = ((bits >> 52) & 0x7ff) as i64;
    let frac = bits & ((1u64 << 52) - 1);
    let s = if sign { "true" } else { "false" };
    if exp == 0x7ff {
        if frac == 0 {
            format!("(S754_infinity {})", s)
        } else {
            "S754_nan".to_string()
        }
    } else if exp == 0 {
        if frac == 0 {
            format!("(S754_zero {})", s)
        } else {
            format!("(S754_finite {} {} (-1074))", s, frac)
        }
    } else {
        let m = frac | (1u64 << 52);
        let e = exp - 1075;
        format!("(S754_finite {} {} ({}))", s, m, e)
    }
}

pub fn num_term(n: &Number) -> String {
    if let Some(u) = n.as_u64() {
        format!("(PosInt {})", u)
    } else if let Some(i) = n.as_i64() {
        format!("(NegInt ({}))", i)
    } else {
        format!("(Float {})", f64_term(n.as_f64().unwrap()))
    }
}

pub fn str_term(s: &str) -> String {
    let mut out = String::from("[");
    let mut first = true;
    for c in s.chars() {
        if !first {
            out.push(';');
        }
        first = false;
        write!(out, "{}", c as u32).unwrap();
    }
    out.push(']');
    out
}

pub fn value_term(v: &Value) -> String {
    match v {
        Value::Null => "Null".to_string(),
        Value::Bool(b) => format!("(Bool {})", b),
        Value::Number(n) => format!("(Num {})", num_term(n)),
        Value::String(s) => format!("(Str {})", str_term(s)),
        Value::Array(a) => {
            let items: Vec<String> = a.iter().map(value_term).collect();
            format!("(Arr [{}])", items.join(";"))
        }
        Value::Object(o) => {
            // serde_json::Map is a BTreeMap: iteration is in ascending key order
            let items: Vec<String> = o
                .iter()
                .map(|(k, v)| format!("({},{})", str_term(k), value_term(v)))
                .collect();
            format!("(Obj [{}])", items.join(";"))
        }
    }
}

pub fn list_term(items: &[String]) -> String {
    format!("[{}]", items.join(";"))
}

pub fn opt_f64_term(o: Option<f64>) -> String {
    match o {
        Some(f) => format!("(Some {})", f64_term(f)),
        None => "None".to_string(),
    }
}
