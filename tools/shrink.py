"""Shrinking of a failing apply(rule, data) case: candidates smaller than the current case are
run through the implementation and judged by the same in-Coq spec_ok; the smallest one that
still fails replaces it, until none does.  Only used once a violation has been found."""
import json
import os
import shutil
import struct
import time

import driver as D

SIMPLE = [None, 0, 1, "", "a", [], True, False]


def enc(v, out=None):
    top = out is None
    if top:
        out = []
    if v is None:
        out.append("n")
    elif v is True:
        out.append("t")
    elif v is False:
        out.append("f")
    elif isinstance(v, int):
        out.extend(["u", str(v)] if v >= 0 else ["i", str(v)])
    elif isinstance(v, float):
        out.extend(["F", str(struct.unpack("<Q", struct.pack("<d", v))[0])])
    elif isinstance(v, str):
        out.extend(["s", v])
    elif isinstance(v, list):
        out.extend(["a", len(v)])
        for x in v:
            enc(x, out)
    else:
        out.extend(["o", len(v)])
        for k in sorted(v):
            out.append(k)
            enc(v[k], out)
    return out


def size(v):
    if isinstance(v, str):
        return 1 + len(v)
    if isinstance(v, list):
        return 1 + sum(size(x) for x in v)
    if isinstance(v, dict):
        return 1 + sum(1 + len(k) + size(x) for k, x in v.items())
    if isinstance(v, (int, float)) and not isinstance(v, bool):
        return 1 + len(repr(v)) // 4
    return 1


def subterms(v, depth=0):
    yield v
    if depth > 40:
        return
    if isinstance(v, list):
        for x in v:
            yield from subterms(x, depth + 1)
    elif isinstance(v, dict):
        for x in v.values():
            yield from subterms(x, depth + 1)


def same(a, b):
    return type(a) is type(b) and json.dumps(a, sort_keys=True) == json.dumps(b, sort_keys=True)


def variants(v, depth=0):
    """values one reduction step away from v (replacement of v or of one position inside it)"""
    for s in SIMPLE:
        if not same(s, v) and size(s) < size(v):
            yield s
    if isinstance(v, str) and len(v) > 1:
        yield v[: len(v) // 2]
        yield v[len(v) // 2:]
        yield v[1:]
        yield v[:-1]
    if isinstance(v, float) and v == int(v) and abs(v) < 2 ** 53:
        yield int(v)
    if isinstance(v, int) and not isinstance(v, bool) and abs(v) > 1:
        yield v // 2
    if depth > 40:
        return
    if isinstance(v, list):
        for i in range(len(v)):
            yield v[:i] + v[i + 1:]
        for i, x in enumerate(v):
            if isinstance(x, (list, dict)):
                yield x if depth > 0 else x          # hoist a member
            for y in variants(x, depth + 1):
                yield v[:i] + [y] + v[i + 1:]
    elif isinstance(v, dict):
        for k in v:
            yield {kk: x for kk, x in v.items() if kk != k}
        for k, x in v.items():
            yield x                                   # hoist a member
            for y in variants(x, depth + 1):
                d = dict(v)
                d[k] = y
                yield d


def candidates(rule, data, cap=400):
    cur = size(rule) + size(data)
    seen = set()
    out = []

    def add(r, d):
        key = json.dumps([r, d], sort_keys=True)
        if key in seen or size(r) + size(d) >= cur:
            return
        seen.add(key)
        out.append((r, d))
    for t in subterms(rule):
        if isinstance(t, dict) and len(t) == 1 and t is not rule:
            add(t, data)
    for d in variants(data):
        add(rule, d)
        if len(out) > 4 * cap:
            break
    for r in variants(rule):
        add(r, data)
        if len(out) > 8 * cap:
            break
    out.sort(key=lambda c: size(c[0]) + size(c[1]))
    # the smallest candidates first, but keep a spread of sizes
    if len(out) > cap:
        step = len(out) / cap
        out = [out[int(i * step)] for i in range(cap)]
    return out


def failing(prop, profile, cands, workdir, slow=False):
    exe, msg = D.step_harness_build(profile)
    if not exe:
        return None
    shutil.rmtree(workdir, ignore_errors=True)
    os.makedirs(workdir)
    path = os.path.join(workdir, "cands.jsonl")
    with open(path, "w") as f:
        for r, d in cands:
            f.write(json.dumps({"rule": enc(r), "data": enc(d)}) + "\n")
    # a case that hangs or crashes costs its whole time limit: give such candidates little
    rc, out = D.sh([exe, "gen", "FILE", "--as", prop, "--file", path, "--out", workdir, "--profile", profile],
                   env={"JLH_TIMEOUT": "3" if slow else "10"}, timeout=240 if slow else 600)
    if rc != 0:
        return None
    bad = set()
    for sr in D.eval_cases(workdir, prop):
        if "error" in sr:
            return None
        bad.update(sr["spec"])
    recs = D.load_records(workdir, prop)
    return [(i, recs[i]) for i in sorted(bad) if i < len(recs)]


def shrink(prop, rec, budget_s=150):
    """rec: a failing record of kind apply.  Returns a smaller failing record or None."""
    w = rec.get("work") or {}
    if w.get("k") != "apply":
        return None
    profile = (rec.get("profile") or "dev").split("/")[0]
    if profile not in ("dev", "release", "dev-nochecks", "release-checks"):
        profile = "dev"
    rule, data = w["rule"], w["data"]
    t0 = time.time()
    workdir = os.path.join(D.BUILD, "cases", f"{prop}-shrink")
    best = None
    rounds = 0
    obs = rec.get("obs") or {}
    slow = any(k in obs for k in ("timeout", "abort", "panic"))
    while time.time() - t0 < budget_s and rounds < 25:
        rounds += 1
        cands = candidates(rule, data, cap=24 if slow else 400)
        if not cands:
            break
        res = failing(prop, profile, cands, workdir, slow)
        if not res:
            break
        res = [(i, r) for i, r in res if not D.known_class_of(prop, r)]
        if not res:
            break
        i, r = min(res, key=lambda t: size(cands[t[0]][0]) + size(cands[t[0]][1]))
        rule, data = cands[i]
        best = dict(r)
        best["profile"] = profile
    if best is not None:
        best["shrunk_from"] = {"rule_text": w.get("rule_text"), "data_text": w.get("data_text"), "rounds": rounds}
    return best
