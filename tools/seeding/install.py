#!/usr/bin/env python3
"""after confirm.sh: copy confirmed round-3 changes into /verif/seeded as Cxx-E / Cxx-F"""
import json, os, shutil, sys
summ = {}
for l in open('/tmp/confirm5/summary.txt'):
    parts = l.split()
    if len(parts) < 3: continue
    kv = dict(p.split('=') for p in parts[2:] if '=' in p)
    summ[(parts[0], parts[1])] = (kv, l.strip())
for (P, X), (kv, line) in sorted(summ.items()):
    ok = kv.get('base_demo_rc') == '0' and kv.get('apply_rc') == '0' and kv.get('suite_rc') == '0' and kv.get('patched_demo_rc') not in ('0', '99', None)
    src = f'/tmp/w5_{P}/_out/{X}'
    dst = f'/verif/seeded/{P}-{"I" if X == "A" else "J"}'
    if not ok:
        print('NOT CONFIRMED', P, X, line); continue
    if os.path.exists(dst): continue
    os.makedirs(dst)
    for f in os.listdir(src):
        if os.path.isfile(os.path.join(src, f)) and os.path.getsize(os.path.join(src, f)) < 200000:
            shutil.copy(os.path.join(src, f), dst)
    mp = os.path.join(dst, 'meta.json')
    try: meta = json.load(open(mp))
    except Exception: meta = {"property": P}
    meta['confirmed_by_me'] = {"what_i_ran": "in a scratch worktree of /repo HEAD: demo on the unchanged tree (passes), git apply patch.diff, cargo test --workspace --no-fail-fast --offline (all pass), demo with the patch (fails), git checkout -- src py", "result": line}
    meta['round'] = 5
    json.dump(meta, open(mp, 'w'), indent=1, ensure_ascii=False)
    print('installed', dst)
