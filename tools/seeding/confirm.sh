#!/bin/bash
# usage: confirm.sh Cxx A|B   -- runs in /tmp/w5_Cxx
P=$1; X=$2; W=/tmp/w5_$P; O=$W/_out/$X; L=/tmp/confirm5/$P-$X.log
export CARGO_NET_OFFLINE=true RUST_BACKTRACE=0
cd $W || exit 9
git checkout -q -- src py 2>/dev/null; rm -f tests/demo_seeded.rs
res="$P $X"
demo() {
  if [ -f $O/demo.rs ]; then cp $O/demo.rs tests/demo_seeded.rs; cargo test --offline --test demo_seeded >>$L 2>&1; rc=$?; rm -f tests/demo_seeded.rs; return $rc
  elif [ -f $O/demo.sh ]; then bash $O/demo.sh $W >>$L 2>&1; return $?
  elif [ -f $O/demo.py ]; then python3 $O/demo.py $W >>$L 2>&1; return $?
  else return 99; fi
}
echo "== base demo" >$L; demo; res="$res base_demo_rc=$?"
git apply $O/patch.diff >>$L 2>&1; res="$res apply_rc=$?"
echo "== suite with patch" >>$L
cargo test --workspace --no-fail-fast --offline >>$L 2>&1; res="$res suite_rc=$?"
npass=$(grep -E "^test result: ok" $L | tail -5 | awk '{s+=$4} END{print s}')
res="$res suite_passed=$npass"
echo "== demo with patch" >>$L; demo; res="$res patched_demo_rc=$?"
git checkout -q -- src py; rm -f tests/demo_seeded.rs
echo "$res" | tee -a /tmp/confirm5/summary.txt
