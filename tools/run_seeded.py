#!/usr/bin/env python3
"""Apply each seeded change in /verif/seeded to /repo, run the property's quick check, undo it.
   usage: run_seeded.py [ids...]   (writes seeded/RESULTS.json)"""
import json, os, subprocess, sys, glob, time
V = os.path.dirname(os.path.dirname(os.path.abspath(__file__)))
ids = sys.argv[1:] or sorted(os.path.basename(d) for d in glob.glob(os.path.join(V, "seeded", "C*-*")))
resf = os.path.join(V, "seeded", "RESULTS.json")
results = json.load(open(resf)) if os.path.exists(resf) else {}
for i in ids:
    d = os.path.join(V, "seeded", i)
    prop = i.split("-")[0]
    st = subprocess.run(["git", "-C", "/repo", "status", "--porcelain", "--untracked-files=no"], capture_output=True, text=True).stdout
    if st.strip():
        print("repo not clean, aborting"); sys.exit(2)
    r = subprocess.run(["git", "-C", "/repo", "apply", os.path.join(d, "patch.diff")], capture_output=True, text=True)
    if r.returncode != 0:
        results[i] = {"error": "patch does not apply: " + r.stderr[:200]}
        continue
    t0 = time.time()
    try:
        p = subprocess.run([os.path.join(V, "check"), prop, "--tier", "quick"], capture_output=True, text=True, cwd=V, timeout=3000)
        lines = [l for l in p.stdout.splitlines() if l.startswith("VIOLATION") or l.startswith("KNOWN")]
        results[i] = {"property": prop, "exit": p.returncode, "detected": p.returncode == 1 and any(l.startswith("VIOLATION") for l in lines),
                      "with_failing_input": any(l.startswith("VIOLATION") and "no-failing-input-found" not in l for l in lines),
                      "lines": lines, "wall_s": round(time.time() - t0)}
    finally:
        subprocess.run(["git", "-C", "/repo", "checkout", "--", "."])
    print(i, results[i], flush=True)
    json.dump(results, open(resf, "w"), indent=1)
