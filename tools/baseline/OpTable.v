(* GENERATED on every run by tools/gen_optable.py from src/op/mod.rs. Do not edit. *)
From Coq Require Import List String NArith Bool.
From JL Require Import Base.Json Base.Monad Model.Ops Model.Table.
Import ListNotations.
Local Open Scope string_scope.
Local Open Scope bool_scope.

Definition is_valid_len (p : num_params) (len : nat) : bool :=
  match p with
  | NPNone => (Nat.eqb len 0)
  | NPAny => true
  | NPUnary => (Nat.eqb len 1)
  | NPExactly n => (Nat.eqb len n)
  | NPAtLeast n => (Nat.leb n len)
  | NPVariadic lo hi => (Nat.leb lo len && Nat.ltb len hi)
  end.

Definition can_accept_unary (p : num_params) : bool :=
  match p with
  | NPNone => false
  | NPAny => true
  | NPUnary => true
  | NPExactly n => (Nat.eqb n 1)
  | NPAtLeast n => (Nat.leb 1 n)
  | NPVariadic lo hi => (Nat.leb lo 1 && Nat.ltb 1 hi)
  end.

Definition eager_table : list eager_entry :=
  [ mk_eager (lit "==") (lit "==") (NPExactly 2) "|items|Ok(Value::Bool(js_op::abstract_eq(items[0],items[1])))" (pure op_abstract_eq);
    mk_eager (lit "!=") (lit "!=") (NPExactly 2) "|items|Ok(Value::Bool(js_op::abstract_ne(items[0],items[1])))" (pure op_abstract_ne);
    mk_eager (lit "===") (lit "===") (NPExactly 2) "|items|Ok(Value::Bool(js_op::strict_eq(items[0],items[1])))" (pure op_strict_eq);
    mk_eager (lit "!==") (lit "!==") (NPExactly 2) "|items|Ok(Value::Bool(js_op::strict_ne(items[0],items[1])))" (pure op_strict_ne);
    mk_eager (lit "!") (lit "!") NPUnary "|items|Ok(Value::Bool(!logic::truthy(items[0])))" (pure op_not);
    mk_eager (lit "!!") (lit "!!") NPUnary "|items|Ok(Value::Bool(logic::truthy(items[0])))" (pure op_double_not);
    mk_eager (lit "<") (lit "<") (NPVariadic 2 4) "numeric::lt" (pure op_lt);
    mk_eager (lit "<=") (lit "<=") (NPVariadic 2 4) "numeric::lte" (pure op_lte);
    mk_eager (lit ">") (lit ">") (NPVariadic 2 4) "numeric::gt" (pure op_gt);
    mk_eager (lit ">=") (lit ">=") (NPVariadic 2 4) "numeric::gte" (pure op_gte);
    mk_eager (lit "+") (lit "+") NPAny "|items|js_op::parse_float_add(items).and_then(to_number_value)" (pure op_add);
    mk_eager (lit "-") (lit "-") (NPVariadic 1 3) "numeric::minus" (pure op_minus);
    mk_eager (lit "*") (lit "*") (NPAtLeast 1) "|items|js_op::parse_float_mul(items).and_then(to_number_value)" (pure op_mul);
    mk_eager (lit "/") (lit "/") (NPExactly 2) "|items|js_op::abstract_div(items[0],items[1]).and_then(to_number_value)" (pure op_div);
    mk_eager (lit "%") (lit "%") (NPExactly 2) "|items|js_op::abstract_mod(items[0],items[1]).and_then(to_number_value)" (pure op_mod);
    mk_eager (lit "max") (lit "max") (NPAtLeast 1) "|items|js_op::abstract_max(items).and_then(to_number_value)" (pure op_max);
    mk_eager (lit "min") (lit "min") (NPAtLeast 1) "|items|js_op::abstract_min(items).and_then(to_number_value)" (pure op_min);
    mk_eager (lit "merge") (lit "merge") NPAny "array::merge" (pure op_merge);
    mk_eager (lit "in") (lit "in") (NPExactly 2) "array::in_" (pure op_in);
    mk_eager (lit "cat") (lit "cat") NPAny "string::cat" (pure op_cat);
    mk_eager (lit "substr") (lit "substr") (NPVariadic 2 4) "string::substr" (pure op_substr);
    mk_eager (lit "log") (lit "log") NPUnary "impure::log" op_log ].

Definition data_table : list data_entry :=
  [ mk_data (lit "var") (lit "var") (NPVariadic 0 3) "data::var" op_var;
    mk_data (lit "missing") (lit "missing") NPAny "data::missing" op_missing;
    mk_data (lit "missing_some") (lit "missing_some") (NPExactly 2) "data::missing_some" op_missing_some ].

Section LazyTable.
  Variable parsed : Type.
  Variable P : value -> outcome parsed.
  Variable E : parsed -> value -> M value.
  Definition lazy_table : list (lazy_entry) :=
    [ mk_lazy (lit "if") (lit "if") NPAny "logic::if_" (if_ parsed P E);
      mk_lazy (lit "?:") (lit "?:") NPAny "logic::if_" (if_ parsed P E);
      mk_lazy (lit "or") (lit "or") (NPAtLeast 1) "logic::or" (or_ parsed P E);
      mk_lazy (lit "and") (lit "and") (NPAtLeast 1) "logic::and" (and_ parsed P E);
      mk_lazy (lit "map") (lit "map") (NPExactly 2) "array::map" (map_ parsed P E);
      mk_lazy (lit "filter") (lit "filter") (NPExactly 2) "array::filter" (filter_ parsed P E);
      mk_lazy (lit "reduce") (lit "reduce") (NPExactly 3) "array::reduce" (reduce_ parsed P E);
      mk_lazy (lit "all") (lit "all") (NPExactly 2) "array::all" (all_ parsed P E);
      mk_lazy (lit "some") (lit "some") (NPExactly 2) "array::some" (some_ parsed P E);
      mk_lazy (lit "none") (lit "none") (NPExactly 2) "array::none" (none_ parsed P E) ].
End LazyTable.

