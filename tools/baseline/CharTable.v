(* GENERATED on every run by tools/gen_chartable.py from src/js_op.rs. Do not edit. *)
From Coq Require Import List NArith.
Import ListNotations.
Local Open Scope N_scope.

(** the code points is_js_whitespace accepts, as inclusive ranges in source order *)
Definition code_js_ws_ranges : list (N * N) :=
  [ (9, 13); (32, 32); (160, 160); (5760, 5760); (8192, 8202); (8232, 8232); (8233, 8233); (8239, 8239); (8287, 8287); (12288, 12288); (65279, 65279) ].

(** the two-byte prefixes str_to_number recognises, with their radix, in source order *)
Definition code_radix_prefixes : list (N * N * N) :=
  [ (48, 120, 16); (48, 88, 16); (48, 111, 8); (48, 79, 8); (48, 98, 2); (48, 66, 2) ].
