#!/usr/bin/env python3
"""Runs the C19 cases against the real extension module (built from /repo's working tree).
usage: py_driver.py PKG_PARENT_DIR cases.jsonl results.jsonl"""
import ast
import json
import sys

sys.path.insert(0, sys.argv[1])
import jsonlogic_rs  # noqa: E402

SER = {
    "default": None,
    "compact": lambda o: json.dumps(o, separators=(",", ":")),
    "spaced": lambda o: " " + json.dumps(o, indent=1) + "\n",
}


def same(a, b):
    """equality that distinguishes bool / int / float and recurses"""
    if type(a) is not type(b):
        return False
    if isinstance(a, list):
        return len(a) == len(b) and all(same(x, y) for x, y in zip(a, b))
    if isinstance(a, dict):
        return a.keys() == b.keys() and all(same(a[k], b[k]) for k in a)
    return a == b or (a != a and b != b)


def call(fn):
    try:
        return {"ret": fn()}
    except ValueError as ex:
        return {"exc": "ValueError", "msg": str(ex)[:120]}
    except BaseException as ex:  # SystemError from a Rust panic, TypeError, ...
        return {"exc": type(ex).__name__, "msg": str(ex)[:120]}


def pyval(expr):
    """a Python value written by the harness as an expression (literals, tuples, float('nan'))"""
    return eval(expr, {"__builtins__": {}}, {"float": float})


def encodable(t):
    try:
        t.encode("utf-8")
        return True
    except UnicodeEncodeError:
        return False


def identity(s):
    return s


def poison(obj):
    """mutate a returned container in place (a caller is free to do that)"""
    if isinstance(obj, list):
        obj.append("__poison__")
        if obj:
            obj[0] = None
    elif isinstance(obj, dict):
        obj["__poison__"] = 1


def repeatable(fn):
    """the same call, made again after the caller has mutated the first result, returns the same"""
    import copy
    a = call(fn)
    keep = copy.deepcopy(a)
    if "ret" in a:
        poison(a["ret"])
    b = call(fn)
    if ("ret" in keep) != ("ret" in b) or keep.get("exc") != b.get("exc"):
        return False
    return "ret" not in keep or same(keep["ret"], b["ret"])


START = int(sys.argv[4]) if len(sys.argv) > 4 else 0

with open(sys.argv[2]) as f, open(sys.argv[3], "a") as out:
    for lineno, line in enumerate(f):
        if lineno < START:
            continue
        c = json.loads(line)
        rec = {"i": c["i"], "tag": c["tag"], "case": c, "decode_ok": True}
        if c["entry"] == "apply":
            # Python objects that are not the image of a JSON text (non-string keys, tuples) are
            # given as Python literals; what they JSON-encode to is decided by the standard encoder
            value = pyval(c["value_py"]) if "value_py" in c else json.loads(c["value_json"])
            data = pyval(c["data_py"]) if "data_py" in c else json.loads(c["data_json"])
            ser = SER[c["ser"]]
            dumps = ser if ser is not None else json.dumps
            kw = {}
            if ser is not None:
                kw["serializer"] = ser
            if c["data_mode"] == "omit":
                args = (value,)
                data_obj = None
            elif c["data_mode"] == "none":
                args = (value, None)
                data_obj = None
            else:
                args = (value, data)
                data_obj = data
            rec["value_text"] = dumps(value)
            rec["data_text"] = dumps(data_obj)      # what the wrapper must hand to the native module
            import copy
            before = copy.deepcopy(args)
            raw = call(lambda: jsonlogic_rs.apply(*args, deserializer=identity, **kw))
            if not same(list(before), list(args)):
                rec["decode_ok"] = False
                rec["why"] = "the call modified its arguments"
            if c["deser"] == "default":
                got = call(lambda: jsonlogic_rs.apply(*args, **kw))
                if ("ret" in raw) != ("ret" in got) or raw.get("exc") != got.get("exc"):
                    rec["decode_ok"] = False
                elif "ret" in raw and not same(got["ret"], json.loads(raw["ret"])):
                    rec["decode_ok"] = False
                elif not repeatable(lambda: jsonlogic_rs.apply(*args, **kw)):
                    rec["decode_ok"] = False
                    rec["why"] = "a repeated call does not return a fresh, equal result"
            rec["outcome"] = raw
        else:
            vt = c["value_text"]
            dt = c.get("data_text")
            args = (vt,) if dt is None else (vt, dt)
            # a str that is not valid Unicode (an unpaired surrogate) is not a text at all: for
            # the model it is simply unparsable
            if not encodable(vt) or (dt is not None and not encodable(dt)):
                rec["case"] = {k: c[k] for k in ("i", "tag", "entry", "deser") if k in c}
            rec["value_text"] = vt if encodable(vt) else "\x00not-unicode"
            rec["data_text"] = dt if dt is None or encodable(dt) else "\x00not-unicode"
            raw = call(lambda: jsonlogic_rs.apply_serialized(*args, deserializer=identity))
            if c["deser"] == "default":
                got = call(lambda: jsonlogic_rs.apply_serialized(*args))
                if ("ret" in raw) != ("ret" in got) or raw.get("exc") != got.get("exc"):
                    rec["decode_ok"] = False
                elif "ret" in raw and not same(got["ret"], json.loads(raw["ret"])):
                    rec["decode_ok"] = False
                elif not repeatable(lambda: jsonlogic_rs.apply_serialized(*args)):
                    rec["decode_ok"] = False
                    rec["why"] = "a repeated call does not return a fresh, equal result"
            rec["outcome"] = raw
        if "ret" in rec["outcome"] and not isinstance(rec["outcome"]["ret"], str):
            rec["decode_ok"] = False
        out.write(json.dumps(rec) + "\n")
        out.flush()
