#!/usr/bin/env python3
"""Translator: regenerate coq/Gen/OpTable.v from /repo/src/op/mod.rs.

Extracts the three phf operator tables (key, symbol, num_params, the text of the
`operator:` binding) and the arms of NumParams::is_valid_len / can_accept_unary, and
emits them as Gallina.  Fail-closed: anything it does not understand is an error
(exit 2, message on stderr) and the caller treats the tie as broken.
"""
import json
import re
import sys

SRC = sys.argv[1] if len(sys.argv) > 1 else "/repo/src/op/mod.rs"
OUT = sys.argv[2] if len(sys.argv) > 2 else "/verif/coq/Gen/OpTable.v"
JSON_OUT = sys.argv[3] if len(sys.argv) > 3 else None


class TranslateError(Exception):
    pass


def strip_comments(src: str) -> str:
    """Remove // and /* */ comments, respecting string and char literals."""
    out = []
    i, n = 0, len(src)
    while i < n:
        c = src[i]
        if c == '"':
            j = i + 1
            while j < n and src[j] != '"':
                j += 2 if src[j] == "\\" else 1
            out.append(src[i:j + 1])
            i = j + 1
        elif c == "'" and i + 2 < n and (src[i + 2] == "'" or (src[i + 1] == "\\" and src.find("'", i + 2) - i <= 8 and src.find("'", i + 2) > 0)):
            j = src.find("'", i + 2 if src[i + 1] != "\\" else i + 3)
            out.append(src[i:j + 1])
            i = j + 1
        elif src.startswith("//", i):
            j = src.find("\n", i)
            i = n if j < 0 else j
        elif src.startswith("/*", i):
            j = src.find("*/", i)
            if j < 0:
                raise TranslateError("unterminated block comment")
            i = j + 2
        else:
            out.append(c)
            i += 1
    return "".join(out)


def matching(src: str, start: int, open_c: str, close_c: str) -> int:
    """Index of the bracket matching src[start] (which must be open_c)."""
    assert src[start] == open_c
    depth = 0
    i, n = start, len(src)
    while i < n:
        c = src[i]
        if c == '"':
            i += 1
            while i < n and src[i] != '"':
                i += 2 if src[i] == "\\" else 1
        elif c == open_c:
            depth += 1
        elif c == close_c:
            depth -= 1
            if depth == 0:
                return i
        i += 1
    raise TranslateError(f"unbalanced {open_c}{close_c}")


def split_top(s: str, sep: str = ","):
    """Split on sep at nesting depth 0 (outside strings, (), [], {}, and |..| closures are fine)."""
    parts, depth, cur = [], 0, []
    i, n = 0, len(s)
    while i < n:
        c = s[i]
        if c == '"':
            j = i + 1
            while j < n and s[j] != '"':
                j += 2 if s[j] == "\\" else 1
            cur.append(s[i:j + 1])
            i = j + 1
            continue
        if c in "([{":
            depth += 1
        elif c in ")]}":
            depth -= 1
        if c == sep and depth == 0:
            parts.append("".join(cur))
            cur = []
        else:
            cur.append(c)
        i += 1
    if "".join(cur).strip():
        parts.append("".join(cur))
    return parts


def rust_str(tok: str) -> str:
    tok = tok.strip()
    if not (len(tok) >= 2 and tok[0] == '"' and tok[-1] == '"'):
        raise TranslateError(f"expected string literal, got {tok!r}")
    body = tok[1:-1]
    if "\\" in body:
        raise TranslateError(f"escape sequences in operator names are not supported: {tok!r}")
    if not all(32 <= ord(ch) < 127 for ch in body):
        raise TranslateError(f"non-ASCII operator name: {tok!r}")
    return body


def parse_num_params(text: str) -> str:
    t = re.sub(r"\s+", "", text)
    m = re.fullmatch(r"NumParams::(\w+)(?:\((.*)\))?", t)
    if not m:
        raise TranslateError(f"cannot parse num_params {text!r}")
    kind, arg = m.group(1), m.group(2)
    if kind in ("None", "Any", "Unary") and arg is None:
        return {"None": "NPNone", "Any": "NPAny", "Unary": "NPUnary"}[kind]
    if kind in ("Exactly", "AtLeast") and arg is not None and re.fullmatch(r"\d+", arg):
        return f"(NP{kind} {int(arg)})"
    if kind == "Variadic" and arg is not None:
        r = re.fullmatch(r"(\d+)\.\.(=?)(\d+)", arg)
        if r:
            lo, hi = int(r.group(1)), int(r.group(3)) + (1 if r.group(2) else 0)
            return f"(NPVariadic {lo} {hi})"
    raise TranslateError(f"unknown NumParams form {text!r}")


def parse_table(src: str, const_name: str, kind: str):
    m = re.search(r"pub\s+const\s+" + const_name + r"\s*:\s*phf::Map<[^>]*>\s*=\s*phf_map!\s*\{", src)
    if not m:
        raise TranslateError(f"table {const_name} not found")
    start = m.end() - 1
    end = matching(src, start, "{", "}")
    body = src[start + 1:end]
    entries = []
    for raw in split_top(body):
        raw = raw.strip()
        if not raw:
            continue
        km = re.match(r'("(?:[^"\\]|\\.)*")\s*=>\s*(\w+)\s*\{', raw)
        if not km:
            raise TranslateError(f"cannot parse entry in {const_name}: {raw[:60]!r}")
        key = rust_str(km.group(1))
        if km.group(2) != kind:
            raise TranslateError(f"entry {key!r} in {const_name} has kind {km.group(2)}, expected {kind}")
        bstart = km.end() - 1
        bend = matching(raw, bstart, "{", "}")
        if raw[bend + 1:].strip():
            raise TranslateError(f"trailing text after entry {key!r}")
        fields = {}
        for f in split_top(raw[bstart + 1:bend]):
            f = f.strip()
            if not f:
                continue
            fm = re.match(r"(\w+)\s*:\s*(.*)\Z", f, re.S)
            if not fm:
                raise TranslateError(f"cannot parse field {f!r} of {key!r}")
            if fm.group(1) in fields:
                raise TranslateError(f"duplicate field {fm.group(1)} of {key!r}")
            fields[fm.group(1)] = fm.group(2).strip()
        if set(fields) != {"symbol", "operator", "num_params"}:
            raise TranslateError(f"entry {key!r} has fields {sorted(fields)}")
        entries.append({
            "key": key,
            "symbol": rust_str(fields["symbol"]),
            "num_params": parse_num_params(fields["num_params"]),
            "binding": re.sub(r"\s+", "", fields["operator"]),
        })
    keys = [e["key"] for e in entries]
    if len(set(keys)) != len(keys):
        raise TranslateError(f"duplicate keys in {const_name}")  # phf would reject it too
    return entries


# --- binding text (whitespace removed) -> Gallina term of the hand-written model ---------
def _bin(fn):
    return f"|items|Ok(Value::Bool({fn}(items[0],items[1])))"


EAGER_BINDINGS = {
    _bin("js_op::abstract_eq"): "(pure op_abstract_eq)",
    _bin("js_op::abstract_ne"): "(pure op_abstract_ne)",
    _bin("js_op::strict_eq"): "(pure op_strict_eq)",
    _bin("js_op::strict_ne"): "(pure op_strict_ne)",
    "|items|Ok(Value::Bool(!logic::truthy(items[0])))": "(pure op_not)",
    "|items|Ok(Value::Bool(logic::truthy(items[0])))": "(pure op_double_not)",
    "numeric::lt": "(pure op_lt)",
    "numeric::lte": "(pure op_lte)",
    "numeric::gt": "(pure op_gt)",
    "numeric::gte": "(pure op_gte)",
    "numeric::minus": "(pure op_minus)",
    "|items|js_op::parse_float_add(items).and_then(to_number_value)": "(pure op_add)",
    "|items|js_op::parse_float_mul(items).and_then(to_number_value)": "(pure op_mul)",
    "|items|js_op::abstract_div(items[0],items[1]).and_then(to_number_value)": "(pure op_div)",
    "|items|js_op::abstract_mod(items[0],items[1]).and_then(to_number_value)": "(pure op_mod)",
    "|items|js_op::abstract_max(items).and_then(to_number_value)": "(pure op_max)",
    "|items|js_op::abstract_min(items).and_then(to_number_value)": "(pure op_min)",
    "array::merge": "(pure op_merge)",
    "array::in_": "(pure op_in)",
    "string::cat": "(pure op_cat)",
    "string::substr": "(pure op_substr)",
    "impure::log": "op_log",
}
DATA_BINDINGS = {
    "data::var": "op_var",
    "data::missing": "op_missing",
    "data::missing_some": "op_missing_some",
}
LAZY_BINDINGS = {
    "logic::if_": "if_",
    "logic::or": "or_",
    "logic::and": "and_",
    "array::map": "map_",
    "array::filter": "filter_",
    "array::reduce": "reduce_",
    "array::all": "all_",
    "array::some": "some_",
    "array::none": "none_",
}


# --- NumParams predicates ---------------------------------------------------------------
class ExprParser:
    """Tiny boolean-expression translator for the arms of is_valid_len / can_accept_unary."""

    def __init__(self, text, bound):
        self.toks = re.findall(r"\d+|\w+|&&|\|\||==|!=|>=|<=|[<>!&().*]", text)
        if "".join(self.toks) != re.sub(r"\s+", "", text):
            raise TranslateError(f"unexpected characters in predicate arm {text!r}")
        self.i = 0
        self.bound = bound  # rust identifier -> gallina nat term, or ('range', lo, hi)

    def peek(self):
        return self.toks[self.i] if self.i < len(self.toks) else None

    def eat(self, t=None):
        tok = self.peek()
        if tok is None or (t is not None and tok != t):
            raise TranslateError(f"expected {t!r}, got {tok!r}")
        self.i += 1
        return tok

    def parse(self):
        e = self.or_()
        if self.peek() is not None:
            raise TranslateError(f"trailing tokens {self.toks[self.i:]}")
        return e

    def or_(self):
        e = self.and_()
        while self.peek() == "||":
            self.eat()
            e = f"({e} || {self.and_()})"
        return e

    def and_(self):
        e = self.not_()
        while self.peek() == "&&":
            self.eat()
            e = f"({e} && {self.not_()})"
        return e

    def not_(self):
        if self.peek() == "!":
            self.eat()
            return f"(negb {self.not_()})"
        return self.cmp()

    def nat_atom(self):
        while self.peek() in ("&", "*"):      # references and dereferences do not change the number
            self.eat()
        tok = self.eat()
        if re.fullmatch(r"\d+", tok):
            return tok
        if tok in self.bound and isinstance(self.bound[tok], str):
            return self.bound[tok]
        if tok in self.bound and isinstance(self.bound[tok], tuple) and self.peek() == ".":
            _, lo, hi = self.bound[tok]          # range.start / range.end
            self.eat(".")
            fld = self.eat()
            if fld == "start":
                return lo
            if fld == "end":
                return hi
            raise TranslateError(f"unknown range field {fld!r}")
        raise TranslateError(f"unknown identifier {tok!r} in predicate arm")

    def cmp(self):
        tok = self.peek()
        if tok == "(":
            self.eat()
            e = self.or_()
            self.eat(")")
            return e
        if tok in ("true", "false"):
            self.eat()
            return tok
        if (tok in self.bound and isinstance(self.bound[tok], tuple)
                and self.toks[self.i + 1:self.i + 3] == [".", "contains"]):
            _, lo, hi = self.bound[self.eat()]
            self.eat(".")
            self.eat("contains")
            self.eat("(")
            x = self.nat_atom()
            self.eat(")")
            return f"(Nat.leb {lo} {x} && Nat.ltb {x} {hi})"
        a = self.nat_atom()
        op = self.eat()
        b = self.nat_atom()
        table = {
            "==": f"(Nat.eqb {a} {b})", "!=": f"(negb (Nat.eqb {a} {b}))",
            ">=": f"(Nat.leb {b} {a})", "<=": f"(Nat.leb {a} {b})",
            ">": f"(Nat.ltb {b} {a})", "<": f"(Nat.ltb {a} {b})",
        }
        if op not in table:
            raise TranslateError(f"unknown comparison {op!r}")
        return table[op]


def parse_predicate(src: str, fn_name: str, len_name):
    m = re.search(r"fn\s+" + fn_name + r"\s*\(([^)]*)\)\s*->\s*bool\s*\{", src)
    if not m:
        raise TranslateError(f"fn {fn_name} not found")
    start = m.end() - 1
    end = matching(src, start, "{", "}")
    body = src[start + 1:end].strip()
    mm = re.match(r"match\s+self\s*\{", body)
    if not mm:
        raise TranslateError(f"{fn_name}: body is not a single `match self`")
    mend = matching(body, mm.end() - 1, "{", "}")
    if body[mend + 1:].strip():
        raise TranslateError(f"{fn_name}: statements after the match")
    arms = {}
    for arm in split_top(body[mm.end():mend]):
        arm = arm.strip()
        if not arm:
            continue
        am = re.match(r"Self::(\w+)(?:\((\w+)\))?\s*=>\s*(.*)\Z", arm, re.S)
        if not am:
            raise TranslateError(f"{fn_name}: cannot parse arm {arm!r}")
        variant, binder, rhs = am.group(1), am.group(2), am.group(3).strip()
        bound = {}
        if len_name:
            bound[len_name] = "len"
        pat = {"None": "NPNone", "Any": "NPAny", "Unary": "NPUnary"}.get(variant)
        if variant in ("Exactly", "AtLeast"):
            if not binder:
                raise TranslateError(f"{fn_name}: {variant} without binder")
            bound[binder] = "n"
            pat = f"NP{variant} n"
        elif variant == "Variadic":
            if not binder:
                raise TranslateError(f"{fn_name}: Variadic without binder")
            bound[binder] = ("range", "lo", "hi")
            pat = "NPVariadic lo hi"
        elif pat is None or binder:
            raise TranslateError(f"{fn_name}: unknown variant {variant}")
        if variant in arms:
            raise TranslateError(f"{fn_name}: duplicate arm {variant}")
        arms[variant] = (pat, ExprParser(rhs, bound).parse())
    if set(arms) != {"None", "Any", "Unary", "Exactly", "AtLeast", "Variadic"}:
        raise TranslateError(f"{fn_name}: arms {sorted(arms)}")
    return arms


def coq_string(s: str) -> str:
    return '"' + s.replace('"', '""') + '"'


def main():
    raw = open(SRC, encoding="utf-8").read()
    src = strip_comments(raw)
    eager = parse_table(src, "OPERATOR_MAP", "Operator")
    data = parse_table(src, "DATA_OPERATOR_MAP", "DataOperator")
    lazy = parse_table(src, "LAZY_OPERATOR_MAP", "LazyOperator")
    # the enum itself
    em = re.search(r"pub\s+enum\s+NumParams\s*\{", src)
    if not em:
        raise TranslateError("enum NumParams not found")
    eend = matching(src, em.end() - 1, "{", "}")
    variants = [re.sub(r"\s+", "", v) for v in split_top(src[em.end():eend]) if v.strip()]
    if variants != ["None", "Any", "Unary", "Exactly(usize)", "AtLeast(usize)", "Variadic(std::ops::Range<usize>)"]:
        raise TranslateError(f"enum NumParams has unexpected variants {variants}")
    valid = parse_predicate(src, "is_valid_len", "len")
    unary = parse_predicate(src, "can_accept_unary", None)

    unknown = []
    for tbl, known in ((eager, EAGER_BINDINGS), (data, DATA_BINDINGS), (lazy, LAZY_BINDINGS)):
        for e in tbl:
            if e["binding"] not in known:
                unknown.append((e["key"], e["binding"]))
            else:
                e["fn"] = known[e["binding"]]
    if JSON_OUT:
        json.dump({"eager": eager, "data": data, "lazy": lazy, "unknown_bindings": unknown},
                  open(JSON_OUT, "w"), indent=1)
    if unknown:
        raise TranslateError("operator bindings with no model counterpart: " +
                             "; ".join(f"{k!r} => {b}" for k, b in unknown))

    L = []
    L.append("(* GENERATED on every run by tools/gen_optable.py from src/op/mod.rs. Do not edit. *)")
    L.append("From Coq Require Import List String NArith Bool.")
    L.append("From JL Require Import Base.Json Base.Monad Model.Ops Model.Table.")
    L.append("Import ListNotations.")
    L.append("Local Open Scope string_scope.")
    L.append("Local Open Scope bool_scope.")
    L.append("")
    order = ["None", "Any", "Unary", "Exactly", "AtLeast", "Variadic"]
    L.append("Definition is_valid_len (p : num_params) (len : nat) : bool :=")
    L.append("  match p with")
    for v in order:
        L.append(f"  | {valid[v][0]} => {valid[v][1]}")
    L.append("  end.")
    L.append("")
    L.append("Definition can_accept_unary (p : num_params) : bool :=")
    L.append("  match p with")
    for v in order:
        L.append(f"  | {unary[v][0]} => {unary[v][1]}")
    L.append("  end.")
    L.append("")

    def emit(name, ty, ctor, tbl):
        L.append(f"Definition {name} : list {ty} :=")
        rows = []
        for e in tbl:
            rows.append(f"  {ctor} (lit {coq_string(e['key'])}) (lit {coq_string(e['symbol'])}) "
                        f"{e['num_params']} {coq_string(e['binding'])} {e['fn']}")
        L.append("  [ " + ";\n    ".join(r.strip() for r in rows) + " ].")
        L.append("")

    emit("eager_table", "eager_entry", "mk_eager", eager)
    emit("data_table", "data_entry", "mk_data", data)
    L.append("Section LazyTable.")
    L.append("  Variable parsed : Type.")
    L.append("  Variable P : value -> outcome parsed.")
    L.append("  Variable E : parsed -> value -> M value.")
    L.append("  Definition lazy_table : list (lazy_entry) :=")
    rows = []
    for e in lazy:
        rows.append(f"mk_lazy (lit {coq_string(e['key'])}) (lit {coq_string(e['symbol'])}) "
                    f"{e['num_params']} {coq_string(e['binding'])} ({e['fn']} parsed P E)")
    L.append("    [ " + ";\n      ".join(rows) + " ].")
    L.append("End LazyTable.")
    L.append("")
    open(OUT, "w").write("\n".join(L) + "\n")


if __name__ == "__main__":
    try:
        main()
    except TranslateError as ex:
        print(f"gen_optable: {ex}", file=sys.stderr)
        sys.exit(2)
