"""Per-property verdict procedure (see DESIGN.md section 2)."""
import json
import os
import sys
import time

import driver as D

RULES = {
    "default": "cases come from the property's generator (harness/src/gens.rs): a committed regression corpus first, then "
               "structured mostly-valid inputs plus a malformed stream, every random choice from one splitmix64 state seeded "
               "by VERIF_SEED; distinct = distinct Gallina work term; non-trivial = the rule is not a bare scalar literal",
}


def sample_records(recs, k=4):
    out = []
    step = max(1, len(recs) // k)
    for r in recs[::step][:k]:
        w = r.get("work", {})
        if w.get("k") == "apply":
            out.append({"rule": w.get("rule_text", json.dumps(w.get("rule"))), "data": w.get("data_text", json.dumps(w.get("data"))),
                        "observed": r.get("obs"), "generator": r.get("tag")})
        else:
            out.append({"work": w if w else r.get("tag"), "observed": r.get("obs"), "generator": r.get("tag")})
    return out


def explore(prop, tier, seed, count, profiles, tag):
    """Run the harness in each profile and evaluate every case in Coq.  Returns a dict."""
    res = {"evaluations": 0, "distinct_nontrivial": 0, "shards": 0, "shards_ok": 0, "corr_fail": [], "spec_fail": [],
           "illformed": [], "errors": [], "dist": {}, "samples": [], "profiles": []}
    for profile in profiles:
        exe, msg = D.step_harness_build(profile)
        if not exe:
            res["errors"].append(f"harness build failed for profile {profile}: {msg}")
            continue
        outdir = os.path.join(D.BUILD, "cases", f"{prop}-{tag}-{profile}")
        summary, msg = D.run_cases(prop, exe, seed, count, tier, profile, outdir)
        if summary is None:
            res["errors"].append(f"harness run failed ({profile}): {msg}")
            continue
        recs = D.load_records(outdir, prop)
        shard_results = D.eval_cases(outdir, prop)
        res["profiles"].append(profile)
        res["evaluations"] += summary["cases"]
        res["distinct_nontrivial"] = max(res["distinct_nontrivial"], summary["distinct_nontrivial"])
        res["dist"][profile] = {"by_generator": summary["by_generator"], "by_outcome": summary["by_outcome"]}
        if not res["samples"]:
            res["samples"] = sample_records(recs)
        for sr in shard_results:
            res["shards"] += 1
            if "error" in sr:
                res["errors"].append(f"coqc failed on {os.path.basename(sr['path'])}: {sr['error']}")
                continue
            # a shard is discharged when every case in it checks, listed known findings aside
            unexplained = [i for kind in ("corr", "spec", "illformed") for i in sr[kind]
                           if not (i < len(recs) and D.known_class_of(prop, recs[i]))]
            if not unexplained:
                res["shards_ok"] += 1
            for kind in ("corr", "spec", "illformed"):
                for i in sr[kind]:
                    rec = dict(recs[i]) if i < len(recs) else {"i": i}
                    rec["profile"] = profile
                    rec["seed"] = seed
                    res[{"corr": "corr_fail", "spec": "spec_fail", "illformed": "illformed"}[kind]].append(rec)
    return res


def run_property(prop, tier, seed):
    t0 = time.time()
    notes = []
    tie_broken = []          # reasons why proof/translator/correspondence no longer check
    D.log(f"[{prop}] tier={tier} seed={seed}")

    ok_tr, msg = D.step_translator()
    if not ok_tr:
        tie_broken.append({"what": "translator", "detail": msg})
    ok_ct, msg = D.step_chartable()
    if not ok_ct and prop in D.CHARTABLE_PROPS:
        ok_tr = False
        tie_broken.append({"what": "character-table translator", "detail": msg})
    with D.Lock("coq"):
        bad = D.gate_sources()
        if bad:
            tie_broken.append({"what": "source gate", "detail": bad[:10]})
        ok_b, msg = D.step_coq_build(["Corr.vo"])
        if not ok_b:
            tie_broken.append({"what": "model build (Corr.vo)", "detail": msg})
        props = D.step_props(prop)
        if not props["ok"]:
            tie_broken.append({"what": f"theorems Props/{prop}.v", "detail": props["msg"]})
    D.log(f"[{prop}] coq done in {time.time() - t0:.0f}s; theorems={len(props['theorems'])} tie_broken={len(tie_broken)}")

    profiles = (D.PROFILES_C01 if prop == "C01" else D.PROFILES)[tier]
    count = D.COUNTS[tier]
    import special
    changed = D.changed_sources()
    if prop in special.RUNNERS:
        ex = special.RUNNERS[prop](prop, tier, seed, count, profiles)
    else:
        ex = explore(prop, tier, seed, count, profiles, "main")
        if prop in special.CROSS_ENTRY:
            special.cross_entry(prop, tier, seed, count, profiles, ex)
        if prop in special.ES_ORACLE:
            special.es_oracle(prop, tier, seed, count, profiles, ex)
    if changed and tier == "quick":
        # the source differs from the tree the model was written against: not an alarm, but a
        # reason to look harder - a second, larger pass from another seed, in two profiles
        D.log(f"[{prop}] source changed since the model was written ({', '.join(changed[:4])}): second pass")
        profs2 = sorted(set(profiles) | {"dev", "release"})
        if prop in special.RUNNERS:
            ex2 = special.RUNNERS[prop](prop, tier, seed + 104729, count * 3, profiles)
        else:
            ex2 = explore(prop, tier, seed + 104729, count * 3, profs2, "second")
        for k in ("evaluations", "shards", "shards_ok"):
            ex[k] += ex2[k]
        for k in ("corr_fail", "spec_fail", "illformed", "errors"):
            ex[k].extend(ex2[k])
        ex["distinct_nontrivial"] = max(ex["distinct_nontrivial"], ex2["distinct_nontrivial"])
        for pr, dd in ex2["dist"].items():
            ex["dist"][pr + "/second-pass"] = dd
    D.log(f"[{prop}] explored {ex['evaluations']} cases in {time.time() - t0:.0f}s: corr_fail={len(ex['corr_fail'])} "
          f"spec_fail={len(ex['spec_fail'])} errors={len(ex['errors'])}")
    if ex["errors"]:
        tie_broken.append({"what": "correspondence run", "detail": ex["errors"][:5]})
    if ex["illformed"]:
        tie_broken.append({"what": "harness produced ill-formed inputs", "detail": [r.get("i") for r in ex["illformed"][:10]]})
    # (a listed known finding fails the correspondence too: it is reported as such below)
    ex["corr_fail"] = [r for r in ex["corr_fail"] if not D.known_class_of(prop, r)]
    if ex["corr_fail"]:
        tie_broken.append({"what": "correspondence: model and implementation disagree",
                           "detail": [{"i": r.get("i"), "tag": r.get("tag"), "work": r.get("work"), "obs": r.get("obs"), "profile": r.get("profile")} for r in ex["corr_fail"][:8]]})

    spec_fail = list(ex["spec_fail"])
    searched = 0
    if tie_broken and not spec_fail and prop not in special.RUNNERS:
        # violation search: more cases, other seeds, all profiles
        D.log(f"[{prop}] tie broken -> searching for a failing input")
        for k in range(1, 4):
            s = explore(prop, tier, seed + 7919 * k, count * 3, profiles, f"search{k}")
            searched += s["evaluations"]
            spec_fail.extend(s["spec_fail"])
            if spec_fail:
                break

    known, unknown = [], []
    for r in spec_fail:
        k = D.known_class_of(prop, r)
        (known if k else unknown).append((r, k))
    seen_classes = []
    for r, k in known:
        if k["class"] not in seen_classes:
            seen_classes.append(k["class"])
            print(f"KNOWN-FINDING: property={prop} {k['what']}", flush=True)

    wall = time.time() - t0
    n_thm = len(props["theorems"])
    obligations = n_thm + ex["shards"] + 1
    discharged = (n_thm if props["ok"] else 0) + ex["shards_ok"] + (1 if ok_tr else 0)
    violations = 0
    status = 0
    if unknown:
        violations = len(unknown)
        status = 1
        minimized = None
        try:
            import shrink
            for r, _ in unknown[:3]:
                minimized = shrink.shrink(prop, r)
                if minimized:
                    break
        except Exception as e:          # shrinking is a convenience; it never decides anything
            notes.append(f"shrinking failed: {e}")
        D.violation(prop, {"property": prop, "minimized": minimized, "reason": "the implementation's output violates the specification on these inputs "
                           "(spec_ok evaluated in Coq on the observed output; independent of the model)",
                           "tie_broken": tie_broken, "cases": [r for r, _ in unknown[:10]]})
    elif tie_broken:
        violations = 1
        status = 1
        D.violation(prop, {"property": prop, "reason": "a proof obligation, the translator or the correspondence no longer checks, "
                           "and the search found no input on which the specification fails",
                           "tie_broken": tie_broken, "searched_cases": searched,
                           "cases": ex["corr_fail"][:10]}, no_input=True)

    evidence = {
        "property_id": prop, "tier": tier, "seed": seed, "level": "proof",
        "coverage": {
            "obligations": obligations, "discharged": discharged,
            "checker_cmd": f"make -C coq Props/{prop}.vo && coqc -Q coq JL coq/Props/{prop}.v && coqc -Q coq JL .build/cases/{prop}-main-*/cases_{prop}_*.v",
            "trusted_base": D.TRUSTED_BASE,
            "theorems": props["theorems"], "print_assumptions": props["assumptions"] or ["Closed under the global context"],
            "evaluations": ex["evaluations"] + searched, "distinct_nontrivial": ex["distinct_nontrivial"],
            "rule": RULES["default"], "samples": ex["samples"], "input_distribution": ex["dist"],
            "case_shards": ex["shards"], "case_shards_ok": ex["shards_ok"], "profiles": ex["profiles"],
            "explanation": "theorems about the Gallina model (for all inputs) + translator-regenerated operator tables + "
                           "in-Coq correspondence (model = implementation, and specification holds of the implementation's output) on generated cases",
            "exhaustive": False,
        },
        "assumptions": D.TRUSTED_BASE, "wall_s": round(wall, 1), "violations": violations,
    }
    if seen_classes:
        evidence["coverage"]["known_findings_reproduced"] = seen_classes
    if changed:
        evidence["coverage"]["source_changed_since_model"] = changed
    if ex.get("notes"):
        evidence["coverage"]["notes"] = ex["notes"]
    if tie_broken:
        evidence["coverage"]["tie_broken"] = [t["what"] for t in tie_broken]
    D.write_json(os.path.join(D.VERIF, "evidence", f"{prop}.json"), evidence)
    D.log(f"[{prop}] done in {wall:.0f}s status={status}")
    return status
