#!/usr/bin/env python3
"""Rewrite seeded/README.md from seeded/*/meta.json and seeded/RESULTS.json."""
import glob
import json
import os

V = os.path.dirname(os.path.dirname(os.path.abspath(__file__)))
res = json.load(open(os.path.join(V, "seeded", "RESULTS.json")))
rows = []
for d in sorted(glob.glob(os.path.join(V, "seeded", "C*-*"))):
    i = os.path.basename(d)
    try:
        m = json.load(open(os.path.join(d, "meta.json")))
    except Exception:
        m = {}
    r = res.get(i, {})

    def cut(t, n):
        t = " ".join(str(t or "").split()).replace("|", "/")
        return t if len(t) <= n else t[: n - 3] + "..."
    rows.append(f"| {i} | {m.get('round', '')} | {cut(m.get('summary'), 150)} | {cut(m.get('needs_to_manifest'), 110)} | "
                f"{'yes' if r.get('detected') else 'NO' if r else '?'} | {'yes' if r.get('with_failing_input') else 'no' if r else '?'} |")
n = len(rows)
det = sum(1 for i in res if res[i].get("detected"))
inp = sum(1 for i in res if res[i].get("with_failing_input"))
head = f"""# Seeded changes and what the checks make of them

Each directory holds `patch.diff` (apply with `git -C /repo apply`), the author's demonstration and `meta.json`.
All {n} were confirmed in a scratch worktree (demo passes on the unchanged tree; with the patch the whole existing suite still passes and the demo fails).
`RESULTS.json` is written by `tools/run_seeded.py` (apply, run the property's quick check, undo): {det} of {len(res)} detected, {inp} with a concrete failing input in the replay.
Rounds: 1 = A,B; 2 = C,D; 3 = E,F; 4 = G,H; 5 = I,J; 6 = K,L; 7 = M,N (what each round led to is in DESIGN.md section 10).

| id | round | change | needs | detected | failing input reported |
|---|---|---|---|---|---|
"""
open(os.path.join(V, "seeded", "README.md"), "w").write(head + "\n".join(rows) + "\n")
print(n, "rows;", det, "detected of", len(res))
