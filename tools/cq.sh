#!/bin/bash
# debugging aid: show the goal just before line N of a proof file.  usage: cq.sh Proofs/X.v N
F=$1; N=$2
head -n $((N-1)) /verif/coq/$F > /tmp/cq_dbg.v
echo "Show. Abort." >> /tmp/cq_dbg.v
cd /verif/coq && coqc -Q . JL /tmp/cq_dbg.v 2>&1 | tail -${3:-40}
