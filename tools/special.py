"""Runners for properties whose exploration is not a plain harness run (C18 CLI, C19 Python)."""
RUNNERS = {}
