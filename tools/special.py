"""Runners for properties whose exploration is not a plain library call: C18 (the jsonlogic
command, run as a process) and C19 (the Python extension module, run in CPython)."""
import glob
import json
import os
import shutil
import sys

import driver as D

PYTHON = os.environ.get("VERIF_PYTHON", sys.executable)


def build_repo(features, profile, what):
    args, rustflags, sub = D.cargo_profile_args(profile)
    target = os.path.join(D.BUILD, f"repo-{features}-{profile}")
    with D.Lock(f"repo-{features}-{profile}"):
        rc, out = D.sh(["cargo", "build", "--offline", "--features", features] + args, cwd=D.REPO,
                       env={"CARGO_TARGET_DIR": target, "RUSTFLAGS": rustflags}, timeout=1500)
    path = os.path.join(target, sub, what)
    if rc != 0 or not os.path.exists(path):
        errs = [l for l in out.splitlines() if l.startswith("error")]
        return None, "\n".join(errs[:10]) or out[-1500:]
    return path, ""


def finish(prop, outdir, profile, res):
    import checks
    summary = json.load(open(os.path.join(outdir, f"summary_{prop}.json")))
    recs = D.load_records(outdir, prop)
    shard_results = D.eval_cases(outdir, prop)
    res["profiles"].append(profile)
    res["evaluations"] += summary["cases"]
    res["distinct_nontrivial"] = max(res["distinct_nontrivial"], summary["distinct_nontrivial"])
    res["dist"][profile] = {"by_generator": summary["by_generator"], "by_outcome": summary["by_outcome"]}
    if not res["samples"]:
        step = max(1, len(recs) // 4)
        res["samples"] = [{"work": r.get("work"), "observed": r.get("obs"), "generator": r.get("tag")} for r in recs[::step][:4]]
    for sr in shard_results:
        res["shards"] += 1
        if "error" in sr:
            res["errors"].append(f"coqc failed on {os.path.basename(sr['path'])}: {sr['error']}")
            continue
        if not sr["corr"] and not sr["spec"] and not sr["illformed"]:
            res["shards_ok"] += 1
        for kind, key in (("corr", "corr_fail"), ("spec", "spec_fail"), ("illformed", "illformed")):
            for i in sr[kind]:
                rec = dict(recs[i]) if i < len(recs) else {"i": i}
                rec["profile"] = profile
                res[key].append(rec)


def run_py_driver(pkg_parent, cases, results, stall_s=25):
    """Run the Python driver with a watchdog: a call that does not return (or kills the
    interpreter) is recorded as such and the driver is restarted after it."""
    import subprocess
    import time as _t
    open(results, "w").close()
    total = sum(1 for _ in open(cases))
    case_lines = open(cases).read().splitlines()
    done = 0
    restarts = 0
    while done < total and restarts < 50:
        p = subprocess.Popen([PYTHON, os.path.join(D.VERIF, "tools", "py_driver.py"), pkg_parent, cases, results, str(done)],
                             stdout=subprocess.DEVNULL, stderr=subprocess.PIPE)
        last, last_t = done, _t.time()
        while p.poll() is None:
            _t.sleep(0.2)
            n = sum(1 for _ in open(results))
            if n != last:
                last, last_t = n, _t.time()
            elif _t.time() - last_t > stall_s:
                p.kill()
                p.wait()
                break
        n = sum(1 for _ in open(results))
        if n >= total:
            return True, ""
        # the case in flight hung or crashed the interpreter
        c = json.loads(case_lines[n])
        why = "Hang" if p.returncode in (None, -9) else f"InterpreterDied({p.returncode})"
        rec = {"i": c.get("i", n), "tag": c.get("tag", ""), "case": c, "decode_ok": True,
               "value_text": c.get("value_text") or c.get("value_json"), "data_text": c.get("data_text") or c.get("data_json"),
               "outcome": {"exc": why}}
        with open(results, "a") as f:
            f.write(json.dumps(rec) + "\n")
        done = n + 1
        restarts += 1
        if restarts >= 8:
            # eight calls that hung or killed the interpreter are findings enough: the cases
            # not run are left out (the evidence counts what was evaluated)
            return True, ""
    ok = sum(1 for _ in open(results)) >= total
    return ok, "" if ok else "too many hangs/crashes in the Python driver"


def new_res():
    return {"evaluations": 0, "distinct_nontrivial": 0, "shards": 0, "shards_ok": 0, "corr_fail": [], "spec_fail": [],
            "illformed": [], "errors": [], "dist": {}, "samples": [], "profiles": []}


def run_c18(prop, tier, seed, count, profiles):
    res = new_res()
    for profile in profiles:
        exe, msg = D.step_harness_build(profile)
        if not exe:
            res["errors"].append(f"harness build failed ({profile}): {msg}")
            continue
        cli, msg = build_repo("cmdline", profile, "jsonlogic")
        if not cli:
            res["errors"].append(f"building the jsonlogic command failed ({profile}): {msg}")
            continue
        outdir = os.path.join(D.BUILD, "cases", f"{prop}-main-{profile}")
        shutil.rmtree(outdir, ignore_errors=True)
        os.makedirs(outdir)
        rc, out = D.sh([exe, "gen", prop, "--seed", str(seed), "--count", str(count), "--tier", tier, "--out", outdir,
                        "--profile", profile], env={"JLH_CLI": cli}, timeout=3000)
        if rc != 0:
            res["errors"].append(f"harness run failed ({profile}): {out[-1500:]}")
            continue
        finish(prop, outdir, profile, res)
    return res


def run_c19(prop, tier, seed, count, profiles):
    res = new_res()
    for profile in profiles:
        exe, msg = D.step_harness_build(profile)
        if not exe:
            res["errors"].append(f"harness build failed ({profile}): {msg}")
            continue
        so, msg = build_repo("python", profile, "libjsonlogic_rs.so")
        if not so:
            res["errors"].append(f"building the Python extension failed ({profile}): {msg}")
            continue
        pkg_parent = os.path.join(D.BUILD, f"pypkg-{profile}")
        pkg = os.path.join(pkg_parent, "jsonlogic_rs")
        shutil.rmtree(pkg_parent, ignore_errors=True)
        os.makedirs(pkg)
        shutil.copy(os.path.join(D.REPO, "py", "jsonlogic_rs", "__init__.py"), pkg)
        shutil.copy(so, os.path.join(pkg, "jsonlogic.so"))
        outdir = os.path.join(D.BUILD, "cases", f"{prop}-main-{profile}")
        shutil.rmtree(outdir, ignore_errors=True)
        os.makedirs(outdir)
        base = [exe, "gen", prop, "--seed", str(seed), "--count", str(count), "--tier", tier, "--out", outdir, "--profile", profile]
        rc, out = D.sh(base + ["--stage", "cases"], timeout=600)
        if rc != 0:
            res["errors"].append(f"case generation failed: {out[-1000:]}")
            continue
        ok, msg = run_py_driver(pkg_parent, os.path.join(outdir, "py_cases.jsonl"), os.path.join(outdir, "py_results.jsonl"))
        if not ok:
            res["errors"].append(f"the Python driver failed: {msg}")
            continue
        rc, out = D.sh(base + ["--stage", "emit"], timeout=600)
        if rc != 0:
            res["errors"].append(f"emission failed: {out[-1000:]}")
            continue
        finish(prop, outdir, profile, res)
    return res


def cross_entry(prop, tier, seed, count, profiles, res):
    """A sample of the property's own cases through the two other entry points (the command
    line and the Python module): the language must mean the same at every boundary."""
    profile = profiles[0]
    n = 300 if tier == "quick" else 3000
    exe, msg = D.step_harness_build(profile)
    if not exe:
        res["errors"].append(f"harness build failed ({profile}): {msg}")
        return
    cli, msg = build_repo("cmdline", profile, "jsonlogic")
    if not cli:
        res["errors"].append(f"building the jsonlogic command failed ({profile}): {msg}")
    else:
        outdir = os.path.join(D.BUILD, "cases", f"{prop}-cli-{profile}")
        shutil.rmtree(outdir, ignore_errors=True)
        os.makedirs(outdir)
        rc, out = D.sh([exe, "gen", "C18", "--from", prop, "--as", prop, "--seed", str(seed), "--count", str(n), "--tier", tier,
                        "--out", outdir, "--profile", profile], env={"JLH_CLI": cli}, timeout=3000)
        if rc != 0:
            res["errors"].append(f"cross-entry CLI run failed: {out[-1000:]}")
        else:
            finish(prop, outdir, profile + "/cli", res)
    so, msg = build_repo("python", profile, "libjsonlogic_rs.so")
    if not so:
        res["errors"].append(f"building the Python extension failed ({profile}): {msg}")
        return
    pkg_parent = os.path.join(D.BUILD, f"pypkg-{profile}")
    pkg = os.path.join(pkg_parent, "jsonlogic_rs")
    shutil.rmtree(pkg_parent, ignore_errors=True)
    os.makedirs(pkg)
    shutil.copy(os.path.join(D.REPO, "py", "jsonlogic_rs", "__init__.py"), pkg)
    shutil.copy(so, os.path.join(pkg, "jsonlogic.so"))
    outdir = os.path.join(D.BUILD, "cases", f"{prop}-py-{profile}")
    shutil.rmtree(outdir, ignore_errors=True)
    os.makedirs(outdir)
    base = [exe, "gen", "C19", "--from", prop, "--as", prop, "--seed", str(seed), "--count", str(n), "--tier", tier, "--out", outdir,
            "--profile", profile]
    rc, out = D.sh(base + ["--stage", "cases"], timeout=600)
    if rc != 0:
        res["errors"].append(f"cross-entry case generation failed: {out[-1000:]}")
        return
    ok, msg = run_py_driver(pkg_parent, os.path.join(outdir, "py_cases.jsonl"), os.path.join(outdir, "py_results.jsonl"))
    if not ok:
        res["errors"].append(f"the Python driver failed: {msg}")
        return
    rc, out = D.sh(base + ["--stage", "emit"], timeout=600)
    if rc != 0:
        res["errors"].append(f"emission failed: {out[-1000:]}")
        return
    finish(prop, outdir, profile + "/python", res)


def es_oracle(prop, tier, seed, count, profiles, res):
    """The property's conversion / comparison helper cases with the installed ECMAScript engine
    (node) as the implementation under test: spec_ok there says S is what JavaScript computes,
    corr_ok that M is.  Skipped (and said so) when node is not installed."""
    node = shutil.which("node")
    if not node:
        res.setdefault("notes", []).append("node not found: ECMAScript oracle skipped")
        return
    profile = profiles[0]
    exe, msg = D.step_harness_build(profile)
    if not exe:
        res["errors"].append(f"harness build failed ({profile}): {msg}")
        return
    n = 600 if tier == "quick" else 8000
    outdir = os.path.join(D.BUILD, "cases", f"{prop}-node-{profile}")
    shutil.rmtree(outdir, ignore_errors=True)
    os.makedirs(outdir)
    base = [exe, "gen", "ES", "--from", prop, "--as", prop, "--seed", str(seed), "--count", str(n), "--tier", tier, "--out", outdir,
            "--profile", profile]
    rc, out = D.sh(base + ["--stage", "cases"], timeout=600)
    if rc != 0:
        res["errors"].append(f"oracle case generation failed: {out[-1000:]}")
        return
    rc, out = D.sh([node, os.path.join(D.VERIF, "tools", "es_oracle.js"), os.path.join(outdir, "es_cases.jsonl"),
                    os.path.join(outdir, "es_results.jsonl")], timeout=600)
    if rc != 0:
        res["errors"].append(f"node oracle failed: {out[-1000:]}")
        return
    rc, out = D.sh(base + ["--stage", "emit"], timeout=600)
    if rc != 0:
        res["errors"].append(f"oracle emission failed: {out[-1000:]}")
        return
    finish(prop, outdir, profile + "/node-oracle", res)


# properties whose helper cases are also evaluated by the ECMAScript engine
ES_ORACLE = {"C07", "C08", "C09", "C10", "C16"}

# properties of the rule language whose cases are also sampled through the CLI and Python
CROSS_ENTRY = {"C%02d" % i for i in range(1, 18)}

RUNNERS = {"C18": run_c18, "C19": run_c19}
