#!/usr/bin/env python3
"""Translator: regenerate coq/Gen/CharTable.v from /repo/src/js_op.rs.

Extracts the two literal tables of the string-to-number conversion - the code points
is_js_whitespace accepts and the radix prefixes str_to_number recognises - and emits them as
Gallina lists.  Fail-closed: a form it does not understand is an error (exit 2).
"""
import json
import re
import sys

sys.path.insert(0, __import__("os").path.dirname(__file__))
from gen_optable import TranslateError, strip_comments, matching, split_top

SRC = sys.argv[1] if len(sys.argv) > 1 else "/repo/src/js_op.rs"
OUT = sys.argv[2] if len(sys.argv) > 2 else "/verif/coq/Gen/CharTable.v"
JSON_OUT = sys.argv[3] if len(sys.argv) > 3 else None

ESC = {"n": 10, "r": 13, "t": 9, "0": 0, "\\": 92, "'": 39, '"': 34}


def char_lit(tok: str) -> int:
    tok = tok.strip()
    m = re.fullmatch(r"'\\u\{([0-9A-Fa-f_]{1,7})\}'", tok)
    if m:
        return int(m.group(1).replace("_", ""), 16)
    m = re.fullmatch(r"'\\x([0-7][0-9A-Fa-f])'", tok)
    if m:
        return int(m.group(1), 16)
    m = re.fullmatch(r"'\\(.)'", tok)
    if m and m.group(1) in ESC:
        return ESC[m.group(1)]
    m = re.fullmatch(r"'([^'\\])'", tok)
    if m:
        return ord(m.group(1))
    raise TranslateError(f"cannot read character literal {tok!r}")


def byte_lit(tok: str) -> int:
    tok = tok.strip()
    if not tok.startswith("b'"):
        raise TranslateError(f"expected a byte literal, got {tok!r}")
    v = char_lit(tok[1:])
    if v > 255:
        raise TranslateError(f"byte literal out of range {tok!r}")
    return v


def char_patterns(text: str):
    ranges = []
    for alt in split_top(text, "|"):
        alt = alt.strip()
        if not alt:
            continue
        m = re.fullmatch(r"(.+?)\s*\.\.=\s*(.+)", alt)
        if m:
            lo, hi = char_lit(m.group(1)), char_lit(m.group(2))
        else:
            lo = hi = char_lit(alt)
        if lo > hi:
            raise TranslateError(f"empty range {alt!r}")
        ranges.append((lo, hi))
    if not ranges:
        raise TranslateError("no patterns")
    return ranges


def parse_ws(src: str):
    m = re.search(r"fn\s+is_js_whitespace\s*\(\s*(\w+)\s*:\s*char\s*\)\s*->\s*bool\s*\{", src)
    if not m:
        raise TranslateError("fn is_js_whitespace(c: char) -> bool not found")
    var = m.group(1)
    end = matching(src, m.end() - 1, "{", "}")
    body = src[m.end():end].strip()
    mm = re.fullmatch(r"matches!\s*\(\s*" + var + r"\s*,(.*)\)\s*", body, re.S)
    if mm:
        return char_patterns(mm.group(1))
    mm = re.match(r"match\s+" + var + r"\s*\{", body)
    if not mm:
        raise TranslateError("is_js_whitespace: body is neither `match c {..}` nor `matches!(c, ..)`")
    mend = matching(body, mm.end() - 1, "{", "}")
    if body[mend + 1:].strip():
        raise TranslateError("is_js_whitespace: statements after the match")
    arms = [a.strip() for a in split_top(body[mm.end():mend]) if a.strip()]
    if len(arms) != 2:
        raise TranslateError(f"is_js_whitespace: expected two arms, found {len(arms)}")
    a0 = re.fullmatch(r"(.*)=>\s*true", arms[0], re.S)
    a1 = re.fullmatch(r"_\s*=>\s*false", arms[1])
    if not a0 or not a1:
        raise TranslateError("is_js_whitespace: arms are not `<patterns> => true, _ => false`")
    return char_patterns(a0.group(1))


def parse_radix(src: str):
    m = re.search(r"pub\s+fn\s+str_to_number\b", src)
    if not m:
        raise TranslateError("fn str_to_number not found")
    b = src.index("{", m.end())
    end = matching(src, b, "{", "}")
    body = src[b + 1:end]
    mm = re.search(r"let\s+radix\s*=\s*match\s+(\w+)\.as_bytes\(\)\s*\{", body)
    if not mm:
        raise TranslateError("str_to_number: `let radix = match s.as_bytes() {` not found")
    mend = matching(body, mm.end() - 1, "{", "}")
    out = []
    arms = [a.strip() for a in split_top(body[mm.end():mend]) if a.strip()]
    if not arms or not re.fullmatch(r"_\s*=>\s*None", arms[-1]):
        raise TranslateError("str_to_number: the radix match does not end in `_ => None`")
    for arm in arms[:-1]:
        am = re.fullmatch(r"(.*)=>\s*Some\(\s*(\d+)\s*\)", arm, re.S)
        if not am:
            raise TranslateError(f"str_to_number: cannot read radix arm {arm!r}")
        radix = int(am.group(2))
        for alt in split_top(am.group(1), "|"):
            alt = alt.strip()
            pm = re.fullmatch(r"\[\s*(b'[^,]*')\s*,\s*(b'[^,]*')\s*,\s*\.\.\s*\]", alt)
            if not pm:
                raise TranslateError(f"str_to_number: cannot read prefix pattern {alt!r}")
            out.append((byte_lit(pm.group(1)), byte_lit(pm.group(2)), radix))
    # the digits start after two bytes
    if not re.search(r"radix_digits_to_number\(\s*&\s*" + mm.group(1) + r"\[\s*2\s*\.\.\s*\]\s*,\s*radix\s*\)", body):
        raise TranslateError("str_to_number: the digits are not taken from &s[2..]")
    return out


def main():
    src = strip_comments(open(SRC, encoding="utf-8").read())
    ws = parse_ws(src)
    radix = parse_radix(src)
    if JSON_OUT:
        json.dump({"js_ws_ranges": ws, "radix_prefixes": radix}, open(JSON_OUT, "w"), indent=1)
    L = ["(* GENERATED on every run by tools/gen_chartable.py from src/js_op.rs. Do not edit. *)",
         "From Coq Require Import List NArith.", "Import ListNotations.", "Local Open Scope N_scope.", "",
         "(** the code points is_js_whitespace accepts, as inclusive ranges in source order *)",
         "Definition code_js_ws_ranges : list (N * N) :=",
         "  [ " + "; ".join(f"({lo}, {hi})" for lo, hi in ws) + " ].", "",
         "(** the two-byte prefixes str_to_number recognises, with their radix, in source order *)",
         "Definition code_radix_prefixes : list (N * N * N) :=",
         "  [ " + "; ".join(f"({a}, {b}, {r})" for a, b, r in radix) + " ]."]
    open(OUT, "w").write("\n".join(L) + "\n")


if __name__ == "__main__":
    try:
        main()
    except TranslateError as ex:
        print(f"gen_chartable: {ex}", file=sys.stderr)
        sys.exit(2)
