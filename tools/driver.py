"""Driver for ./check: translator -> Coq build + gates -> harness -> in-Coq case evaluation -> verdict."""
import concurrent.futures
import fcntl
import glob
import json
import os
import re
import shutil
import subprocess
import sys
import time

VERIF = os.path.dirname(os.path.dirname(os.path.abspath(__file__)))
REPO = os.environ.get("VERIF_REPO", "/repo")
BUILD = os.path.join(VERIF, ".build")
COQ = os.path.join(VERIF, "coq")
HOOK_CFG = "jsonlogic_rs_verif"

ALL_PROPS = ["C%02d" % i for i in range(1, 20)]

# which build profiles a tier exercises
PROFILES = {"quick": ["dev"], "thorough": ["dev", "release"]}
PROFILES_C01 = {"quick": ["dev", "release"], "thorough": ["dev", "release", "dev-nochecks", "release-checks"]}
COUNTS = {"quick": 2400, "thorough": 40000}

FORBIDDEN = re.compile(
    r"\b(Admitted|admit|Axiom|Axioms|Parameter|Parameters|Conjecture|Conjectures|bypass_check|Admit\s+Obligations)\b"
    r"|Unset\s+Guard|Unset\s+Positivity|Unset\s+Universe|type-in-type|impredicative-set")

# axioms of the standard library a theorem may depend on, per property (everything else is an alarm)
ALLOWED_AXIOMS = {
    "C10": {
        "ClassicalDedekindReals.sig_forall_dec", "ClassicalDedekindReals.sig_not_dec",
        "FunctionalExtensionality.functional_extensionality_dep", "Classical_Prop.classic",
    },
}

TRUSTED_BASE = [
    "Coq 8.16.1 kernel (coqc), vm_compute for finite-table theorems and case evaluation; no native_compute",
    "tools/gen_optable.py translator (operator tables and NumParams predicates regenerated from src/op/mod.rs every run)",
    "harness/ (Rust): case generation, catch_unwind runner, printing of serde_json Values as Gallina terms",
    "hand-written Gallina model of js_op.rs, value.rs, op/*.rs function bodies, tied by the in-Coq correspondence check (sampled)",
    "modelled, not verified: serde_json Value/Number/Map API and Display (zmij shortest float text), f64::from_str correctly rounded, "
    "Rust f64 operators = IEEE-754 binary64 RNE (Coq Floats.SpecFloat), i64::from_str, str::trim_matches, phf exact-match lookup",
]


def log(*a):
    print(*a, file=sys.stderr, flush=True)


def sh(cmd, timeout=1800, cwd=None, env=None, stdin=None):
    e = dict(os.environ)
    e.update({"CARGO_NET_OFFLINE": "true", "RUST_BACKTRACE": "0"})
    if env:
        e.update(env)
    try:
        p = subprocess.run(cmd, cwd=cwd, env=e, stdout=subprocess.PIPE, stderr=subprocess.STDOUT,
                           timeout=timeout, input=stdin, shell=isinstance(cmd, str))
        return p.returncode, p.stdout.decode("utf-8", "replace")
    except subprocess.TimeoutExpired as ex:
        return 124, (ex.stdout or b"").decode("utf-8", "replace") + "\n[timeout]"


class Lock:
    def __init__(self, name):
        os.makedirs(BUILD, exist_ok=True)
        self.path = os.path.join(BUILD, name + ".lock")

    def __enter__(self):
        self.f = open(self.path, "w")
        fcntl.flock(self.f, fcntl.LOCK_EX)
        return self

    def __exit__(self, *a):
        fcntl.flock(self.f, fcntl.LOCK_UN)
        self.f.close()


# ------------------------------------------------------------------ translator
def _translate(script, src_rel, name, json_name):
    """Run one translator.  The generated file is replaced only when the translation succeeds;
    when it fails and no generated file exists yet (a fresh restore), the committed baseline
    (generated from the pinned source) is put in its place so that the rest still builds and
    the search for a failing input can run - the failure itself is reported as a broken tie."""
    out = os.path.join(COQ, "Gen", name)
    tmp = os.path.join(BUILD, name + ".new")
    os.makedirs(os.path.dirname(out), exist_ok=True)
    os.makedirs(BUILD, exist_ok=True)
    rc, txt = sh([sys.executable, os.path.join(VERIF, "tools", script),
                  os.path.join(REPO, *src_rel), tmp, os.path.join(BUILD, json_name)], timeout=60)
    if rc != 0:
        if not os.path.exists(out):
            shutil.copy(os.path.join(VERIF, "tools", "baseline", name), out)
        return False, txt.strip()
    new = open(tmp).read()
    old = open(out).read() if os.path.exists(out) else None
    if new != old:
        shutil.move(tmp, out)
    return True, ""


def step_translator():
    return _translate("gen_optable.py", ("src", "op", "mod.rs"), "OpTable.v", "optable.json")


# properties whose theorems rest on the character tables of js_op.rs
CHARTABLE_PROPS = {"C07", "C09", "C10"}


def step_chartable():
    return _translate("gen_chartable.py", ("src", "js_op.rs"), "CharTable.v", "chartable.json")


# ------------------------------------------------------------------ Coq
def strip_comments(src):
    out, depth, i = [], 0, 0
    while i < len(src):
        if src.startswith("(*", i):
            depth += 1
            i += 2
        elif src.startswith("*)", i) and depth > 0:
            depth -= 1
            i += 2
        else:
            if depth == 0:
                out.append(src[i])
            i += 1
    return "".join(out)


def gate_sources():
    """No Admitted/admit/Axiom/... anywhere in the development; no Variable/Hypothesis outside a section."""
    bad = []
    for path in sorted(glob.glob(os.path.join(COQ, "**", "*.v"), recursive=True)):
        if os.sep + "Cases" + os.sep in path:
            continue
        code = strip_comments(open(path).read())
        # string literals may legitimately contain anything
        code_ns = re.sub(r'"(?:[^"]|"")*"', '""', code)
        for m in FORBIDDEN.finditer(code_ns):
            bad.append(f"{os.path.relpath(path, VERIF)}: forbidden token {m.group(0)!r}")
        depth = 0
        for line in code_ns.splitlines():
            t = line.strip()
            if re.match(r"Section\s+\w+", t):
                depth += 1
            elif re.match(r"End\s+\w+", t) and depth > 0:
                depth -= 1
            elif depth == 0 and re.match(r"(Variable|Variables|Hypothesis|Hypotheses|Context)\b", t):
                bad.append(f"{os.path.relpath(path, VERIF)}: {t.split()[0]} outside a section")
    return bad


def coq_makefile():
    mk = os.path.join(COQ, "Makefile")
    proj = os.path.join(COQ, "_CoqProject")
    if not os.path.exists(mk) or os.path.getmtime(mk) < os.path.getmtime(proj):
        rc, out = sh(["coq_makefile", "-f", "_CoqProject", "-o", "Makefile"], cwd=COQ, timeout=120)
        if rc != 0:
            return False, out
    return True, ""


def step_coq_build(targets, timeout=3000):
    ok, msg = coq_makefile()
    if not ok:
        return False, msg
    rc, out = sh(["make", "-j16"] + targets, cwd=COQ, timeout=timeout)
    if rc != 0:
        tail = "\n".join(out.strip().splitlines()[-25:])
        return False, tail
    return True, ""


def parse_assumptions(output):
    """Split coqc output of a Props file into per-Print-Assumptions blocks."""
    blocks = []
    cur = None
    for line in output.splitlines():
        if line.startswith("Closed under the global context"):
            blocks.append([])
            cur = None
        elif line.startswith("Axioms:"):
            cur = []
            blocks.append(cur)
        elif cur is not None:
            m = re.match(r"^(\S+)\s*:", line)
            if m:
                cur.append(m.group(1))
            elif line and not line.startswith(" "):
                cur = None
    return blocks


def step_props(prop):
    """Compile Props/Cxx.v (its dependencies are built by make) and check Print Assumptions."""
    src = os.path.join(COQ, "Props", prop + ".v")
    res = {"theorems": [], "assumptions": [], "ok": False, "msg": ""}
    if not os.path.exists(src):
        res["msg"] = "no Props file"
        return res
    code = strip_comments(open(src).read())
    res["theorems"] = re.findall(r"\b(?:Theorem|Corollary|Example)\s+(\w+)", code)
    n_print = len(re.findall(r"Print\s+Assumptions", code))
    ok, msg = step_coq_build([f"Props/{prop}.vo"])
    if not ok:
        res["msg"] = "make failed: " + msg
        return res
    os.makedirs(os.path.join(BUILD, "props"), exist_ok=True)
    rc, out = sh(["coqc", "-Q", ".", "JL", "-o", os.path.join(BUILD, "props", f"{prop}.vo"), f"Props/{prop}.v"], cwd=COQ, timeout=1200)
    if rc != 0:
        res["msg"] = "coqc Props failed: " + "\n".join(out.strip().splitlines()[-15:])
        return res
    blocks = parse_assumptions(out)
    res["assumptions"] = sorted({a for b in blocks for a in b})
    if len(blocks) != n_print or n_print < len(re.findall(r"\bTheorem\s+\w+", code)):
        res["msg"] = f"Print Assumptions blocks {len(blocks)} / expected {n_print} (one per theorem required)"
        return res
    extra = [a for a in res["assumptions"] if a not in ALLOWED_AXIOMS.get(prop, set())]
    if extra:
        res["msg"] = "axioms outside the allow-list: " + ", ".join(extra)
        return res
    res["ok"] = True
    return res


# ------------------------------------------------------------------ harness
def cargo_profile_args(profile):
    flags = f"--cfg {HOOK_CFG}"
    if profile == "dev":
        return [], flags, "debug"
    if profile == "release":
        return ["--release"], flags, "release"
    if profile == "dev-nochecks":
        return [], flags + " -C overflow-checks=off", "debug"
    if profile == "release-checks":
        return ["--release"], flags + " -C overflow-checks=on", "release"
    raise ValueError(profile)


def step_harness_build(profile):
    args, rustflags, sub = cargo_profile_args(profile)
    target = os.path.join(BUILD, "cargo-" + profile)
    lockfile = os.path.join(VERIF, "harness", "Cargo.lock")
    if not os.path.exists(lockfile):
        shutil.copy(os.path.join(REPO, "Cargo.lock"), lockfile)
    with Lock("cargo-" + profile):
        rc, out = sh(["cargo", "build", "--offline"] + args, cwd=os.path.join(VERIF, "harness"),
                     env={"CARGO_TARGET_DIR": target, "RUSTFLAGS": rustflags}, timeout=1500)
    exe = os.path.join(target, sub, "jlh")
    if rc != 0 or not os.path.exists(exe):
        errs = [l for l in out.splitlines() if l.startswith("error")]
        return None, "\n".join(errs[:10]) or out[-2000:]
    return exe, ""


def run_cases(prop, exe, seed, count, tier, profile, outdir):
    shutil.rmtree(outdir, ignore_errors=True)
    os.makedirs(outdir)
    rc, out = sh([exe, "gen", prop, "--seed", str(seed), "--count", str(count), "--tier", tier,
                  "--out", outdir, "--profile", profile], timeout=3000)
    if rc != 0:
        return None, out[-3000:]
    return json.load(open(os.path.join(outdir, f"summary_{prop}.json"))), ""


def coqc_shard(path):
    # (case files may hold very long strings and arrays: no stack limit for the evaluation)
    rc, out = sh(["bash", "-c", 'ulimit -s unlimited 2>/dev/null; exec coqc -Q "$0" JL -o "$1" "$2"', COQ, path[:-2] + ".vo", path], timeout=1500)
    flat = " ".join(out.split())
    m = re.search(r"= \(\[(.*?)\], \[(.*?)\], \[(.*?)\], (\d+)\)", flat)
    if rc != 0 or not m:
        return {"path": path, "error": flat[-600:]}

    def ids(t):
        return [int(x) for x in re.findall(r"\d+", t)]
    return {"path": path, "corr": ids(m.group(1)), "spec": ids(m.group(2)), "illformed": ids(m.group(3)), "n": int(m.group(4))}


def eval_cases(outdir, prop):
    shards = sorted(glob.glob(os.path.join(outdir, f"cases_{prop}_*.v")))
    with concurrent.futures.ThreadPoolExecutor(max_workers=16) as ex:
        results = list(ex.map(coqc_shard, shards))
    return results


def load_records(outdir, prop):
    path = os.path.join(outdir, f"cases_{prop}.jsonl")
    return [json.loads(l) for l in open(path)] if os.path.exists(path) else []


# ------------------------------------------------------------------ known findings
def load_known():
    p = os.path.join(VERIF, "known_findings.json")
    return json.load(open(p)) if os.path.exists(p) else {"open": [], "fixed": []}


def deep_reduce_nesting(rec):
    """Known-finding class KF1, and nothing else: a reduce whose step expression returns its own
    context ({"var": ""} in any spelling of the whole-data key), over a collection of more than
    1000 elements, observed to end the process (not to return a wrong value)."""
    try:
        w = rec["work"]
        rule = w.get("rule")
        obs = rec.get("obs") or {}
        if not (isinstance(rule, dict) and list(rule) == ["reduce"] and isinstance(rule["reduce"], list) and len(rule["reduce"]) == 3):
            return False
        step = rule["reduce"][1]
        whole = [{"var": ""}, {"var": None}, {"var": []}, {"var": [""]}, {"var": [None]}]
        if step not in whole:
            return False
        if not any(k in obs for k in ("abort", "timeout", "panic")):
            return False
        return len(json.dumps(w.get("data"))) > 2000
    except Exception:
        return False


KNOWN_CLASSES = {"KF1-reduce-context-nesting": deep_reduce_nesting}


def known_class_of(prop, rec):
    for k in load_known().get("open", []):
        if k["property"] == prop and k["class"] in KNOWN_CLASSES and KNOWN_CLASSES[k["class"]](rec):
            return k
    return None


# ------------------------------------------------------------------ source fingerprints
FINGERPRINTS = os.path.join(VERIF, "source_fingerprints.json")
# the harness adds the boundaries of the source's own character tables to its test characters
os.environ["JLH_TABLES"] = os.path.join(BUILD, "chartable.json")


def source_files():
    out = []
    for root, pat in (("src", ".rs"), ("py", ".py")):
        for dp, _, fns in os.walk(os.path.join(REPO, root)):
            for fn in fns:
                if fn.endswith(pat):
                    out.append(os.path.relpath(os.path.join(dp, fn), REPO))
    for extra in ("Cargo.toml", "Cargo.lock"):
        if os.path.exists(os.path.join(REPO, extra)):
            out.append(extra)
    return sorted(out)


def current_fingerprints():
    import hashlib
    return {f: hashlib.sha256(open(os.path.join(REPO, f), "rb").read()).hexdigest() for f in source_files()}


def changed_sources():
    """Files of /repo whose text differs from the tree the model was last written against
    (source_fingerprints.json).  A difference is not an alarm: it makes the run look harder."""
    try:
        base = json.load(open(FINGERPRINTS))["files"]
    except Exception:
        return ["(no fingerprint baseline)"]
    cur = current_fingerprints()
    return sorted(f for f in set(base) | set(cur) if base.get(f) != cur.get(f))


def write_fingerprints():
    # the generated tables of this tree become the baselines used when a translation fails
    for step, name in ((step_translator, "OpTable.v"), (step_chartable, "CharTable.v")):
        ok, msg = step()
        if not ok:
            log("translator failed:", msg)
            return 1
        shutil.copy(os.path.join(COQ, "Gen", name), os.path.join(VERIF, "tools", "baseline", name))
    rc, head = sh(["git", "-C", REPO, "rev-parse", "HEAD"])
    write_json(FINGERPRINTS, {"repo_head": head.strip(), "files": current_fingerprints()})
    return 0


# ------------------------------------------------------------------ evidence / replay
def write_json(path, obj):
    os.makedirs(os.path.dirname(path), exist_ok=True)
    tmp = path + ".tmp"
    with open(tmp, "w") as f:
        json.dump(obj, f, indent=1, ensure_ascii=False)
    os.replace(tmp, path)


def violation(prop, replay_obj, no_input=False):
    rdir = os.path.join(VERIF, "replays")
    os.makedirs(rdir, exist_ok=True)
    path = os.path.join(rdir, f"{prop}_{int(time.time())}_{os.getpid()}.json")
    write_json(path, replay_obj)
    print(f"VIOLATION property={prop} replay={path}" + (" no-failing-input-found" if no_input else ""), flush=True)
    return path


def main(argv):
    import argparse
    ap = argparse.ArgumentParser()
    ap.add_argument("prop")
    ap.add_argument("--tier", default=os.environ.get("VERIF_TIER", "quick"))
    ap.add_argument("--replay")
    ap.add_argument("--setup", action="store_true")
    a = ap.parse_args(argv)
    tier = a.tier if a.tier in ("quick", "thorough") else "quick"
    seed = int(os.environ.get("VERIF_SEED", "1") or 1)
    if a.prop == "setup":
        return setup()
    if a.prop == "fingerprint":
        return write_fingerprints()
    prop = a.prop
    if prop not in ALL_PROPS:
        log("unknown property", prop)
        return 2
    if a.replay:
        return replay(prop, a.replay)
    import checks
    return checks.run_property(prop, tier, seed)


def setup():
    t0 = time.time()
    ok, msg = step_translator()
    if not ok:
        log("translator failed (setup continues; checks will report it):", msg)
    ok, msg = step_chartable()
    if not ok:
        log("character-table translator failed (setup continues; C07/C09/C10 will report it):", msg)
    with Lock("coq"):
        ok, msg = step_coq_build([], timeout=3400)
    if not ok:
        log("coq build failed:\n" + msg)
        return 1
    for prof in ("dev", "release"):
        exe, msg = step_harness_build(prof)
        if not exe:
            log(f"harness build ({prof}) failed:\n{msg}")
            return 1
    log(f"setup done in {time.time() - t0:.0f}s")
    return 0


def replay(prop, path):
    obj = json.load(open(path))
    exe, msg = step_harness_build("dev")
    if not exe:
        log(msg)
        return 2
    print(json.dumps(obj.get("reason"), indent=1))
    for c in obj.get("cases", [])[:5]:
        w = c.get("work", {})
        if w.get("k") == "apply":
            rc, out = sh([exe, "one", json.dumps(w["rule"]), json.dumps(w["data"])], timeout=60)
            print("rule:", json.dumps(w["rule"]), "data:", json.dumps(w["data"]))
            print("  now:", out.strip(), " recorded:", json.dumps(c.get("obs")))
            print("  expected:", c.get("expected", "see reason"))
    return 0
