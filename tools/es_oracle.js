// ECMAScript oracle: evaluates the conversion / comparison helper cases in this JavaScript
// engine.  usage: node es_oracle.js es_cases.jsonl es_results.jsonl
'use strict';
const fs = require('fs');
const [inp, outp] = process.argv.slice(2);
const dv = new DataView(new ArrayBuffer(8));
function bits(x) {
  if (Number.isNaN(x)) return null;
  dv.setFloat64(0, x);
  return dv.getBigUint64(0).toString();
}
// numbers whose String() JavaScript would use, in the harness's order
function nums(v, top, out) {
  if (typeof v === 'number') { if (top) out.push(v); }
  else if (Array.isArray(v)) { for (const x of v) nums(x, true, out); }
}
const out = [];
for (const line of fs.readFileSync(inp, 'utf8').split('\n')) {
  if (!line) continue;
  const c = JSON.parse(line);
  const args = c.args.map((t) => JSON.parse(t));
  let skip = false;
  args.forEach((a, k) => {
    const got = [];
    nums(a, c.fn === 'to_string', got);
    const want = c.nums[k];
    if (got.length !== want.length) { skip = true; return; }
    got.forEach((n, j) => { if (String(n) !== want[j]) skip = true; });
  });
  let r = null;
  const [a, b] = args;
  // the property orders strings by code point; JavaScript orders them by UTF-16 code unit.
  // The two differ only when a supplementary character meets U+E000..U+FFFF: skip those.
  if (/^abstract_(lt|gt|lte|gte)$/.test(c.fn) && args.length === 2 &&
      (typeof a === 'string' || (typeof a === 'object' && a !== null)) &&
      (typeof b === 'string' || (typeof b === 'object' && b !== null))) {
    const sa = String(a), sb = String(b);
    const pa = Array.from(sa, (ch) => ch.codePointAt(0)), pb = Array.from(sb, (ch) => ch.codePointAt(0));
    let byPoint = 0;
    for (let k = 0; k < Math.min(pa.length, pb.length) && byPoint === 0; k++) byPoint = Math.sign(pa[k] - pb[k]);
    if (byPoint === 0) byPoint = Math.sign(pa.length - pb.length);
    const byUnit = sa < sb ? -1 : sa > sb ? 1 : 0;
    if (byPoint !== byUnit) skip = true;
  }
  switch (c.fn) {
    case 'abstract_eq': r = { b: a == b }; break;
    case 'abstract_ne': r = { b: a != b }; break;
    case 'strict_eq': r = { b: a === b }; break;
    case 'strict_ne': r = { b: a !== b }; break;
    case 'abstract_lt': r = { b: a < b }; break;
    case 'abstract_gt': r = { b: a > b }; break;
    case 'abstract_lte': r = { b: a <= b }; break;
    case 'abstract_gte': r = { b: a >= b }; break;
    case 'to_string': r = { s: String(a) }; break;
    case 'to_number': r = { f: bits(Number(a)) }; break;
    case 'str_to_number': r = { f: bits(Number(a)) }; break;
    case 'parse_float': r = { f: bits(parseFloat(a)) }; break;
    default: skip = true;
  }
  out.push(JSON.stringify({ i: c.i, skip, r }));
}
fs.writeFileSync(outp, out.join('\n') + '\n');
