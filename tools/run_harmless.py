#!/usr/bin/env python3
"""Behaviour-preserving rewrites of /repo (seeded/harmless/*.diff): the checks of the properties
they touch must stay quiet.  usage: run_harmless.py [names...]  (writes seeded/HARMLESS_RESULTS.json)"""
import glob, json, os, subprocess, sys, time
V = os.path.dirname(os.path.dirname(os.path.abspath(__file__)))
TOUCHES = {
    "H1_truthy_respelled": ["C05", "C06", "C13", "C14"],
    "H2_tables_reordered": ["C02", "C03", "C16"],
    "H3_merge_cat_loops": ["C15", "C16", "C04"],
    "H4_strict_eq_respelled": ["C08", "C15"],
    "H6_error_texts": ["C01", "C03", "C18", "C19"],
    "H7_boundaries_respelled": ["C18", "C19", "C06", "C17"],
}
names = sys.argv[1:] or sorted(TOUCHES)
resf = os.path.join(V, "seeded", "HARMLESS_RESULTS.json")
results = json.load(open(resf)) if os.path.exists(resf) else {}
for n in names:
    st = subprocess.run(["git", "-C", "/repo", "status", "--porcelain", "--untracked-files=no"], capture_output=True, text=True).stdout
    if st.strip():
        print("repo not clean, aborting"); sys.exit(2)
    r = subprocess.run(["git", "-C", "/repo", "apply", os.path.join(V, "seeded", "harmless", n + ".diff")], capture_output=True, text=True)
    if r.returncode != 0:
        results[n] = {"error": r.stderr[:200]}; continue
    out = {}
    try:
        for prop in TOUCHES[n]:
            t0 = time.time()
            p = subprocess.run([os.path.join(V, "check"), prop, "--tier", "quick"], capture_output=True, text=True, cwd=V, timeout=3000)
            lines = [l for l in p.stdout.splitlines() if l.startswith("VIOLATION")]
            out[prop] = {"exit": p.returncode, "quiet": p.returncode == 0 and not lines, "lines": lines, "wall_s": round(time.time() - t0)}
            print(n, prop, out[prop], flush=True)
    finally:
        subprocess.run(["git", "-C", "/repo", "checkout", "--", "."])
    results[n] = out
    json.dump(results, open(resf, "w"), indent=1)
